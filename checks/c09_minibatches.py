"""C09 — each epoch partitions the rollout into disjoint, intact minibatches."""

from __future__ import annotations

import functools
from collections import OrderedDict
from typing import ClassVar

import jax

jax.config.update("jax_enable_x64", True)

import equinox as eqx
import numpy as np
import optax
from hypothesis import strategies as st
from jax import numpy as jnp
from jax import random as jr

from lerax.algorithm import PPO
from lerax.buffer import RolloutBuffer
from lerax.policy import AbstractActorCriticPolicy
from lerax.space import Box, Dict, Discrete, Tuple
from vlib.doubles import CounterState
from vlib.runner import Ctx

NA = 5  # action = id % NA, mask bit j = bit j of id


def id_buffer(E, T, obs_kind, shift=0.0):
    """RolloutBuffer of shape (E, T) (or (T,) for E == 0) in which every leaf encodes id = e*T + t."""
    shape = (E, T) if E else (T,)
    ids = np.arange(int(np.prod(shape))).reshape(shape)
    f = jnp.asarray(ids, dtype=float)
    if obs_kind == "box":
        obs = jnp.stack([f, f + 0.5], axis=-1)
    elif obs_kind == "discrete":
        obs = jnp.asarray(ids)
    elif obs_kind == "dict":
        obs = OrderedDict(id=jnp.asarray(ids), x=jnp.stack([f, f, f], axis=-1))
    else:
        obs = (jnp.asarray(ids), jnp.stack([f, f], axis=-1).reshape(shape + (1, 2)))
    mask = jnp.asarray(((ids[..., None] >> np.arange(NA)) & 1).astype(bool))
    return RolloutBuffer(
        observations=obs,
        actions=jnp.asarray(ids % NA),
        rewards=f,
        dones=jnp.asarray(ids % 2 == 1),
        log_probs=jnp.zeros(shape),
        values=f + 1000.0,
        states=CounterState(jnp.asarray(ids)),
        action_masks=mask,
        returns=f * 0.25 + shift,
        advantages=-f,
    )


def row_ids(buf, i):
    """All ids encoded in row i of a flat (or batch-of-rows) buffer; a consistent row yields one id."""
    out = set()
    for leaf in jax.tree.leaves(buf.observations):
        a = np.asarray(leaf)[i]
        out |= set(np.floor(np.asarray(a, np.float64).reshape(-1)).astype(int).tolist())
    rid = int(np.asarray(buf.rewards)[i])
    out.add(rid)
    out.add(int(np.asarray(buf.states.n)[i]))
    out.add(int(round(float(np.asarray(buf.values)[i]) - 1000.0)))
    out.add(int(round(float(np.asarray(buf.returns)[i]) * 4)))
    out.add(int(round(-float(np.asarray(buf.advantages)[i]))))
    ok = (
        int(np.asarray(buf.actions)[i]) == rid % NA
        and bool(np.asarray(buf.dones)[i]) == (rid % 2 == 1)
        and np.array_equal(np.asarray(buf.action_masks)[i], ((rid >> np.arange(NA)) & 1).astype(bool))
    )
    return out, ok


def oracle_api(ctx: Ctx, case):
    E, T, B, kind = case["E"], case["T"], case["B"], case["obs_kind"]
    N = max(E, 1) * T
    buf = id_buffer(E, T, kind)
    axes = case.get("axes")
    axes = tuple(axes) if isinstance(axes, list) else axes
    flat = buf.flatten_axes(axes)
    ctx.check(np.asarray(flat.rewards).shape == (N,), "C09/flatten/shape", shape=list(np.asarray(flat.rewards).shape))
    seen = []
    for i in range(N):
        ids, ok = row_ids(flat, i)
        ctx.check(len(ids) == 1 and ok, "C09/flatten/fields-of-a-row-from-different-samples", row=i, ids=sorted(ids))
        seen.append(min(ids))
    ctx.check(sorted(seen) == list(range(N)), "C09/flatten/loses-or-duplicates-samples", got=sorted(seen))
    # batch_indices
    k1, k2 = jr.key(case["key"]), jr.key(case["key"] + 1)
    nb = N // B
    idx1 = np.asarray(flat.batch_indices(B, key=k1))
    idx2 = np.asarray(flat.batch_indices(B, key=k2))
    idx0 = np.asarray(flat.batch_indices(B, key=None))
    for nm, idx in (("keyed", idx1), ("keyed2", idx2), ("sequential", idx0)):
        ctx.check(idx.shape == (nb, B), "C09/batch-indices/shape", which=nm, shape=list(idx.shape), expected=[nb, B])
        fl = idx.reshape(-1)
        ctx.check(len(set(fl.tolist())) == fl.size, "C09/batch-indices/sample-in-two-minibatches", which=nm, indices=fl)
        ctx.check(fl.size == nb * B and bool(np.all((fl >= 0) & (fl < N))), "C09/batch-indices/not-floor-N-over-B-times-B-samples", which=nm, used=int(fl.size), expected=nb * B)
    ctx.check(np.array_equal(idx0.reshape(-1), np.arange(nb * B)), "C09/batch-indices/keyless-not-sequential")
    if nb * B >= 8:
        ctx.check(not np.array_equal(idx1, idx2), "C09/batch-indices/no-fresh-shuffle-per-key")  # P(equal) <= 1/8!
        ctx.check(not np.array_equal(idx1.reshape(-1), np.arange(nb * B)), "C09/batch-indices/keyed-order-is-sequential")
    # gather / batches / sample keep rows intact
    g = flat.gather(jnp.asarray(idx1[0]))
    for i in range(B):
        ids, ok = row_ids(g, i)
        ctx.check(len(ids) == 1 and ok and min(ids) == seen[int(idx1[0][i])], "C09/gather/row-not-the-indexed-sample", row=i, ids=sorted(ids), index=int(idx1[0][i]))
    bt = buf.batches(B, key=k1, batch_axes=axes)
    ctx.check(tuple(np.asarray(bt.rewards).shape) == (nb, B), "C09/batches/not-floor-N-over-B-minibatches-of-B", shape=list(np.asarray(bt.rewards).shape), expected=[nb, B])
    used = []
    for b in range(nb):
        one = jax.tree.map(lambda x: x[b], bt)
        for i in range(B):
            ids, ok = row_ids(one, i)
            ctx.check(len(ids) == 1 and ok, "C09/batches/fields-of-a-row-from-different-samples", batch=b, row=i, ids=sorted(ids))
            used.append(min(ids))
    ctx.check(len(set(used)) == len(used) == nb * B, "C09/batches/not-a-partition", used=sorted(used))
    sm = buf.sample(B, key=k2)
    sids = []
    for i in range(B):
        ids, ok = row_ids(sm, i)
        ctx.check(len(ids) == 1 and ok, "C09/sample/fields-of-a-row-from-different-samples", row=i, ids=sorted(ids))
        sids.append(min(ids))
    ctx.check(len(set(sids)) == B, "C09/sample/duplicate-in-batch", sampled=sids)
    swapped = axes in ((1, 0), (-1, -2))
    ctx.count(nontrivial=(N % B != 0) or (E > 1 and kind in ("dict", "tuple")) or swapped, classes=[kind, f"E={E}"] + ["ragged"] * (N % B != 0) + ["axes-swapped"] * swapped, key=[E, T, B, kind, str(axes)])


# ----------------------------------------------------------------------------- end-to-end through PPO.train
class TaggingPolicy(AbstractActorCriticPolicy):
    """value = v[sample id] where the observation *is* the sample id; actor has no parameters.
    If any field of the row (observation leaves, action, mask, policy state) does not belong to the
    same sample, the value is NaN, which lerax's own error_if in ppo_loss turns into an exception."""

    name: ClassVar[str] = "TaggingPolicy"
    action_space: Discrete
    observation_space: object
    v: jnp.ndarray
    obs_kind: str = eqx.field(static=True)

    def __init__(self, v, obs_kind):
        self.action_space = Discrete(NA)
        self.observation_space = Discrete(10**6)
        self.v = jnp.asarray(v, dtype=float)
        self.obs_kind = obs_kind

    def reset(self, *, key):
        return CounterState(jnp.asarray(0))

    def _id(self, obs):
        k = self.obs_kind
        if k == "box":
            return jnp.floor(obs[0]).astype(int), (obs[1] == obs[0] + 0.5)
        if k == "discrete":
            return obs, jnp.asarray(True)
        if k == "dict":
            return obs["id"], jnp.all(obs["x"] == obs["id"])
        return obs[0], jnp.all(obs[1] == obs[0])

    def __call__(self, state, observation, *, key=None, action_mask=None):
        return state, jnp.asarray(0)

    def action_and_value(self, state, observation, *, key, action_mask=None):
        i, _ = self._id(observation)
        return state, jnp.asarray(0), self.v[i], jnp.asarray(0.0)

    def value(self, state, observation):
        i, _ = self._id(observation)
        return state, self.v[i]

    def evaluate_action(self, state, observation, action, *, action_mask=None):
        i, ok = self._id(observation)
        ok = ok & (action == i % NA) & (state.n == i)
        if action_mask is not None:
            ok = ok & jnp.all(action_mask == ((i >> jnp.arange(NA)) & 1).astype(bool))
        val = jnp.where(ok, self.v[i], jnp.nan)
        return state, val, jnp.asarray(0.0), jnp.asarray(0.0)


LR = 0.5  # with value coefficient B the per-visit factor is exactly 1 - LR = 1/2


@functools.lru_cache(maxsize=None)
def _ppo(E, T, nb, epochs):
    algo = PPO(num_envs=max(E, 1), num_steps=T, num_batches=nb, num_epochs=epochs, normalize_advantages=False, clip_value_loss=False, entropy_loss_coefficient=0.0, value_loss_coefficient=1.0)
    B = algo.batch_size
    # plain SGD; value coefficient B makes d loss/d v[id] = (v - ret) for a sample visited once in a batch
    algo = eqx.tree_at(lambda a: a.optimizer, algo, optax.sgd(LR))
    algo = eqx.tree_at(lambda a: a.value_loss_coefficient, algo, float(B))
    return algo


@eqx.filter_jit
def _train(algo, policy, opt_state, buf, key):
    return algo.train(policy, opt_state, buf, key=key)


def visit_counts(ctx, E, T, nb, epochs, kind, key, shift):
    algo = _ppo(E, T, nb, epochs)
    N = max(E, 1) * T
    buf = id_buffer(E, T, kind, shift)
    ret = np.arange(N) * 0.25 + shift
    policy = TaggingPolicy(ret + 1.0, kind)
    opt_state = algo.optimizer.init(eqx.filter(policy, eqx.is_inexact_array))
    new_policy, _, log = _train(algo, policy, opt_state, buf, jr.key(key))
    resid = np.asarray(new_policy.v, np.float64) - ret  # (1/2)^k
    ctx.check(bool(np.all(resid > 0)), "C09/train/value-trajectory-not-a-visit-count", resid=resid)
    k = -np.log2(resid)
    ctx.check(bool(np.all(np.abs(k - np.round(k)) < 1e-9)), "C09/train/rows-misaligned-or-visited-fractionally", k=k)
    return np.round(k).astype(int), algo.batch_size


def oracle_train(ctx: Ctx, case):
    E, T, nb, epochs, kind = case["E"], case["T"], case["nb"], case["epochs"], case["obs_kind"]
    N = max(E, 1) * T
    counts = []
    B = None
    for j in range(case["nkeys"]):
        k, B = visit_counts(ctx, E, T, nb, epochs, kind, case["key"] + j, case["shift"])
        used = (N // B) * B
        ctx.check(int(k.max()) <= epochs, "C09/train/sample-in-two-minibatches-of-one-epoch", counts=k, epochs=epochs)
        ctx.check(int(k.sum()) == epochs * used, "C09/train/not-floor-N-over-B-times-B-samples-per-epoch", total=int(k.sum()), expected=epochs * used, N=N, B=B, epochs=epochs)
        if epochs == 1:
            ctx.check(set(k.tolist()) <= {0, 1}, "C09/train/sample-in-two-minibatches-of-one-epoch", counts=k)
        counts.append(k)
    ragged = N % B != 0
    if ragged and case["nkeys"] >= 12 and N >= 10:
        dropped = {tuple(np.where(k < epochs)[0].tolist()) for k in counts}
        ctx.check(len(dropped) > 1, "C09/train/dropped-samples-do-not-vary-with-the-key", dropped=sorted(dropped))
        if epochs >= 2:
            partial = any(((k > 0) & (k < epochs)).any() for k in counts)
            ctx.check(partial, "C09/train/epochs-reuse-the-same-shuffle", counts=[k.tolist() for k in counts[:4]])
    ctx.count(nontrivial=ragged or (E > 1 and kind in ("dict", "tuple")), classes=[kind, f"E={E}", f"epochs={epochs}"] + ["ragged"] * ragged, key=[E, T, nb, epochs, kind])


PARTS = {"api": oracle_api, "train": oracle_train}


@st.composite
def api_cases(draw):
    E = draw(st.sampled_from([0, 1, 2, 3, 5]))
    T = draw(st.integers(1, 24))
    N = max(E, 1) * T
    # every spelling of "all batch axes" the API accepts, in either order (the order only decides the row order)
    axes = draw(st.sampled_from([None, [0, 1], [1, 0], [-1, -2], [-2, -1]] if E else [None, 0, -1, [0]]))
    return {"E": E, "T": T, "axes": axes, "B": draw(st.integers(1, N)), "obs_kind": draw(st.sampled_from(["box", "discrete", "dict", "tuple"])), "key": draw(st.integers(0, 2**31 - 2))}


def train_configs(ctx, n):
    """Seeded list of (E, T, num_batches, epochs, obs_kind) configs; each costs one compile."""
    rng = np.random.default_rng(ctx.seed + 9)
    fixed = [(2, 5, 4, 2, "dict"), (1, 7, 2, 1, "box"), (3, 4, 5, 3, "tuple"), (0, 11, 3, 2, "discrete")]
    out = list(fixed)
    while len(out) < n:
        E = int(rng.choice([0, 1, 2, 3, 4, 5]))
        T = int(rng.integers(2, 25))
        N = max(E, 1) * T
        nb = int(rng.integers(1, min(N, 12) + 1))
        out.append((E, T, nb, int(rng.integers(1, 5)), str(rng.choice(["box", "discrete", "dict", "tuple"]))))
    return out[:n]


def run(ctx: Ctx):
    ctx.rule = (
        "Buffers of shape (num_envs, num_steps) whose every leaf (pytree observations, action, mask, policy state, value, return, "
        "advantage, reward) encodes the sample id: flatten_axes / batch_indices / gather / batches / sample are checked for "
        "partition and row integrity; PPO.train is run end-to-end with a tagging policy (one value-table entry per sample, plain "
        "SGD, value loss only) so that each sample's visit count is recovered exactly from (v-ret)=2^-k, over several keys per "
        "configuration. Non-trivial: N mod B != 0, or several envs with pytree observations; distinct by configuration."
    )
    ctx.assumptions = ["x64 (2^-k exact)", "optax.sgd substituted for the optimiser via tree_at on the public field"]
    ctx.run_given("api", api_cases(), oracle_api, ctx.n(150, 4000))
    cfgs = train_configs(ctx, ctx.n(9, 80))
    cases = [{"E": E, "T": T, "nb": nb, "epochs": ep, "obs_kind": kind, "nkeys": 12, "key": ctx.seed * 1000 + 17 * i, "shift": 0.5} for i, (E, T, nb, ep, kind) in enumerate(cfgs)]
    ctx.run_cases("train", cases, oracle_train)
    ctx.require_fraction("api", "ragged", 0.15)
