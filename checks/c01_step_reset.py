"""C01 — Gym-style step/reset honours episode boundaries (auto-reset contract)."""

from __future__ import annotations

import functools
import json

import jax
import numpy as np

import equinox as eqx
from hypothesis import strategies as st
from hypothesis.stateful import RuleBasedStateMachine, initialize, precondition, rule
from jax import numpy as jnp
from jax import random as jr

from vlib import mdp, wrapref
from vlib.runner import Ctx, run_pool

SIZES = {"disc": (4, 3), "box": (4, 3), "pytree": (3, 2)}
BOXB = (-1.0, 1.0)


# ----------------------------------------------------------------------------- shared step oracle
@eqx.filter_jit
def components(env, state, action, k1, k2):
    """The functional components of one transition, evaluated under two different keys."""
    nxt1 = env.transition(state, action, key=k1)
    nxt2 = env.transition(state, action, key=k2)
    return dict(
        nxt=nxt1,
        nxt_b=nxt2,
        reward=env.reward(state, action, nxt1, key=k1),
        reward_b=env.reward(state, action, nxt1, key=k2),
        term=env.terminal(nxt1, key=k1),
        term_b=env.terminal(nxt1, key=k2),
        trunc=env.truncate(nxt1),
        obs_nxt=env.observation(nxt1, key=k1),
        obs_nxt_b=env.observation(nxt1, key=k2),
    )


@eqx.filter_jit
def observe(env, state, key):
    return env.observation(state, key=key)


def tree_equal(a, b) -> bool:
    la, ta = jax.tree.flatten(a)
    lb, tb = jax.tree.flatten(b)
    if ta != tb:
        return False
    return all(np.asarray(x).shape == np.asarray(y).shape and np.array_equal(np.asarray(x), np.asarray(y), equal_nan=True) for x, y in zip(la, lb))


def tree_close(a, b, rtol=1e-5, atol=1e-6) -> bool:
    la, ta = jax.tree.flatten(a)
    lb, tb = jax.tree.flatten(b)
    if ta != tb:
        return False
    for x, y in zip(la, lb):
        x, y = np.asarray(x), np.asarray(y)
        if x.shape != y.shape:
            return False
        if np.issubdtype(x.dtype, np.floating):
            if not np.allclose(x, y, rtol=rtol, atol=atol, equal_nan=True):
                return False
        elif not np.array_equal(x, y):
            return False
    return True


def check_step(ctx: Ctx, env, state, action, key_int, fresh, tags, exact=True):
    """One Gym-style step judged against the environment's own functional components.
    `fresh(state) -> str|None` says why a state is NOT a freshly drawn initial state."""
    comp = components(env, state, action, jr.key(key_int ^ 0x5A5A), jr.key(key_int ^ 0x1234))
    # env.step and the component-wise evaluation are two different XLA programs: float leaves may differ
    # by reassociation-level rounding (seen: 1 ulp on a HalfCheetah reward); integer / bool leaves exactly
    eq = (lambda a, b: tree_close(a, b, 1e-6, 1e-7)) if exact else (lambda a, b: tree_close(a, b, 1e-5, 1e-6))
    # precondition of the key-free oracle: components do not depend on their key
    ctx.check(
        eq(comp["nxt"], comp["nxt_b"]) and eq(comp["reward"], comp["reward_b"]) and eq(comp["term"], comp["term_b"]) and eq(comp["obs_nxt"], comp["obs_nxt_b"]),
        "C01/harness/components-depend-on-key",
        tags=tags,
    )
    out = env.step(state, action, key=jr.key(key_int))
    ctx.check(isinstance(out, tuple) and len(out) == 6, "C01/step-arity", tags=tags)
    new_state, obs, reward, term, trunc, info = out
    ctx.check(eq(reward, comp["reward"]), "C01/step-reward-not-of-this-transition", tags=tags, observed=reward, expected=comp["reward"])
    ctx.check(bool(term) == bool(comp["term"]), "C01/step-terminal-flag", tags=tags, observed=bool(term), expected=bool(comp["term"]))
    ctx.check(bool(trunc) == bool(comp["trunc"]), "C01/step-truncated-flag", tags=tags, observed=bool(trunc), expected=bool(comp["trunc"]))
    done = bool(comp["term"]) or bool(comp["trunc"])
    obs_of_returned = observe(env, new_state, jr.key(key_int ^ 0x77))
    ctx.check(eq(obs, obs_of_returned), "C01/step-observation-not-of-returned-state", tags=tags, done=done, observed=obs, expected=obs_of_returned)
    if done:
        why = fresh(new_state)
        ctx.check(why is None, "C01/post-done-state-not-fresh-initial", tags=tags, why=why, term=bool(term), trunc=bool(trunc))
    else:
        ctx.check(eq(new_state, comp["nxt"]), "C01/returned-state-not-the-successor", tags=tags)
        ctx.check(eq(obs, comp["obs_nxt"]), "C01/observation-not-the-successors", tags=tags)
    return new_state, obs, float(reward), bool(term), bool(trunc), comp


# ----------------------------------------------------------------------------- MDP wrapper stacks
@functools.lru_cache(maxsize=None)
def _template(kind: str, program_json: str):
    nS, nA = SIZES[kind]
    spec = _blank_spec(kind)
    return wrapref.build(spec, json.loads(program_json))


def _blank_spec(kind):
    nS, nA = SIZES[kind]
    spec = {
        "nS": nS,
        "nA": nA,
        "P": [[0] * nA for _ in range(nS)],
        "R": [[[0.0] * nS for _ in range(nA)] for _ in range(nS)],
        "T": [False] * nS,
        "U": [False] * nS,
        "I": [True] * nS,
        "M": [[True] * nA for _ in range(nS)] if kind != "box" else None,
        "obs_kind": "dict" if kind == "pytree" else "onehot",
        "act_kind": "box" if kind == "box" else "discrete",
        "time_limit": None,
    }
    if kind == "box":
        spec.update(act_shape=[], act_low=BOXB[0], act_high=BOXB[1], K=1.0)
    return spec


def get_env(kind: str, spec: dict, program: list):
    tmpl = _template(kind, json.dumps(program))
    depth = len(program)

    def where(e):
        for _ in range(depth):
            e = e.env
        return e

    base = mdp.TableMDP(dict(spec, time_limit=None))
    return eqx.tree_at(where, tmpl, base) if depth else base


def mdp_fresh(ref: wrapref.StackRef):
    def fresh(state):
        b = wrapref.base_state(state)
        if not bool(ref.base.I[int(b.s)]):
            return f"state {int(b.s)} outside the initial support"
        if float(b.acc) != 0.0:
            return "base state not fresh (acc != 0)"
        cs = wrapref.time_limit_counters(state)
        if any(c != 0 for c in cs):
            return f"time-limit counters not restarted: {cs}"
        return None

    return fresh


class Exec:
    """Executes a trace of reset/step ops on a wrapper stack, in lock-step with StackRef."""

    def __init__(self, ctx: Ctx, kind, spec, program):
        self.ctx = ctx
        self.kind, self.spec, self.program = kind, spec, program
        self.env = get_env(kind, spec, program)
        self.ref = wrapref.StackRef(spec, program)
        self.fresh = mdp_fresh(self.ref)
        self.state = None
        self.tags = {"kind": kind}
        self.flags = set()
        self.depth_in_episode = 0

    def _sync(self, state):
        b = wrapref.base_state(state)
        self.s, self.acc = int(b.s), float(b.acc)
        self.counts = wrapref.time_limit_counters(state)

    def reset(self, seed):
        ctx = self.ctx
        state, obs, info = self.env.reset(key=jr.key(seed))
        why = self.fresh(state)
        ctx.check(why is None, "C01/reset-state-not-initial", tags=self.tags, why=why)
        ctx.check(tree_equal(obs, observe(self.env, state, jr.key(seed ^ 99))), "C01/reset-observation-not-of-returned-state", tags=self.tags)
        self.state = state
        self._sync(state)
        self._check_obs(obs)
        self.depth_in_episode = 0

    def _check_obs(self, obs):
        exp, lo, hi = self.ref.map_obs(self.ref.base.obs(self.s, self.acc))
        got = wrapref.flatten(jax.tree.map(np.asarray, obs)) if isinstance(exp, np.ndarray) and not isinstance(obs, (np.ndarray, jnp.ndarray)) else obs
        if isinstance(exp, np.ndarray):
            self.ctx.check(np.allclose(np.asarray(got, np.float64), exp, rtol=1e-5, atol=1e-6), "C01/observation-vs-interpreter", tags=self.tags, observed=got, expected=exp)
        else:
            self.ctx.check(self.ref.base.obs_equal(obs, self.s, self.acc), "C01/observation-vs-interpreter", tags=self.tags)

    def step(self, action, seed):
        ctx = self.ctx
        a = jnp.asarray(action, dtype=float) if self.ref.box else jnp.asarray(int(action), dtype=int)
        new_state, obs, reward, term, trunc, comp = check_step(ctx, self.env, self.state, a, seed, self.fresh, self.tags)
        # lock-step reference interpreter
        s2, counts2, r, rterm, rtrunc, acc2, ia = self.ref.step(self.s, self.counts, action)
        ctx.check(np.isclose(reward, r, rtol=1e-5, atol=1e-5), "C01/reward-vs-interpreter", tags=self.tags, observed=reward, expected=r)
        ctx.check(term == rterm, "C01/terminal-vs-interpreter", tags=self.tags, observed=term, expected=rterm)
        ctx.check(trunc == rtrunc, "C01/truncated-vs-interpreter", tags=self.tags, observed=trunc, expected=rtrunc, counts=counts2, limits=self.ref.limits_outer_first())
        self.depth_in_episode += 1
        if term and trunc:
            self.flags.add("both")
        elif term:
            self.flags.add("term")
        elif trunc:
            self.flags.add("trunc")
        self.state = new_state
        if term or trunc:
            self._sync(new_state)
            self.depth_in_episode = 0
        else:
            b = wrapref.base_state(new_state)
            ctx.check(int(b.s) == s2 and wrapref.time_limit_counters(new_state) == counts2, "C01/successor-vs-interpreter", tags=self.tags)
            self.s, self.counts, self.acc = s2, counts2, acc2
        self._check_obs(obs)


def oracle_trace(ctx: Ctx, case):
    ex = Exec(ctx, case["kind"], case["spec"], case["program"])
    for op in case["ops"]:
        if op[0] == "reset":
            ex.reset(op[1])
        else:
            ex.step(op[1], op[2])
    ctx.count(nontrivial=bool(ex.flags), classes=sorted(ex.flags) + [case["kind"]], key=[case["kind"], case["program"], sorted(ex.flags), len(case["ops"])])


class StackMachine(RuleBasedStateMachine):
    POOL: dict = {}

    def __init__(self):
        super().__init__()
        self.ex = None
        self.trace = None

    @initialize(data=st.data())
    def setup(self, data):
        kind = data.draw(st.sampled_from(sorted(self.POOL)))
        program = data.draw(st.sampled_from(self.POOL[kind]))
        nS, nA = SIZES[kind]
        spec = data.draw(
            mdp.mdp_specs(
                fixed_sizes=(nS, nA),
                act_kind="box" if kind == "box" else "discrete",
                obs_kinds=("dict",) if kind == "pytree" else ("onehot",),
                masked=kind != "box",
                fixed_time_limit="none",
            )
        )
        if kind == "box":
            spec.update(act_low=BOXB[0], act_high=BOXB[1], K=1.0, act_shape=[])
        self.trace = {"kind": kind, "spec": spec, "program": program, "ops": []}
        self.ctx.begin(self.part, self.trace)
        self.ex = Exec(self.ctx, kind, spec, program)
        seed = data.draw(st.integers(0, 2**31 - 1))
        self.trace["ops"].append(["reset", seed])
        self.ex.reset(seed)

    @rule(seed=st.integers(0, 2**31 - 1))
    def reset(self, seed):
        self.trace["ops"].append(["reset", seed])
        self.ctx.begin(self.part, self.trace)
        self.ex.reset(seed)

    @rule(data=st.data(), seed=st.integers(0, 2**31 - 1), n=st.integers(2, 8))
    def step(self, data, seed, n):
        for i in range(n):
            if self.ex.ref.box:
                lo, hi = self.ex.ref.action_bounds()
                lo0 = float(max(lo.reshape(-1)[0], -50.0))
                hi0 = float(min(hi.reshape(-1)[0], 50.0))
                a = data.draw(st.one_of(st.sampled_from([lo0, hi0]), st.floats(lo0, hi0, allow_nan=False)))
                a = wrapref.safe_action(self.ex.ref, float(np.float32(a)))
            else:
                m = self.ex.ref.map_mask(self.ex.ref.base.M[self.ex.s]) if self.ex.ref.base.M is not None else None
                allowed = [i for i in range(self.ex.spec["nA"]) if m is None or m[i]]
                a = data.draw(st.sampled_from(allowed))
            self.trace["ops"].append(["step", a, seed + i])
            self.ctx.begin(self.part, self.trace)
            self.ex.step(a, seed + i)

    def teardown(self):
        if self.ex is None:
            return
        self.ctx.begin(self.part, self.trace)
        ex = self.ex
        self.ctx.count(nontrivial=bool(ex.flags), classes=sorted(ex.flags) + [ex.kind], key=[ex.kind, ex.program, sorted(ex.flags), len(self.trace["ops"])])


# ----------------------------------------------------------------------------- built-in environments
def classic_env(name, time_limit=None):
    from lerax.env import classic_control as cc
    from lerax.wrapper import TimeLimit

    env = getattr(cc, name)()
    if time_limit is not None:
        env = TimeLimit(env, time_limit)
    return env


def classic_fresh(name):
    boxes = {
        "CartPole": (np.full(4, -0.05), np.full(4, 0.05)),
        "MountainCar": (np.array([-0.6, 0.0]), np.array([-0.4, 0.0])),
        "ContinuousMountainCar": (np.array([-0.6, 0.0]), np.array([-0.4, 0.0])),
        "Pendulum": (np.array([-np.pi, -1.0]), np.array([np.pi, 1.0])),
        "Acrobot": (np.full(4, -0.1), np.full(4, 0.1)),
    }
    lo, hi = boxes[name]

    def fresh(state):
        cs = wrapref.time_limit_counters(state)
        if any(c != 0 for c in cs):
            return f"time-limit counters not restarted: {cs}"
        b = wrapref.base_state(state)
        if float(b.t) != 0.0:
            return f"episode clock not restarted: t={float(b.t)}"
        y = np.asarray(b.y, np.float64)
        if not (np.all(y >= lo - 1e-6) and np.all(y <= hi + 1e-6)):
            return f"state {y.tolist()} outside the reset range"
        return None

    return fresh


# interesting start regions per classic env: (low, high) boxes the start state is drawn from
CLASSIC_REGIONS = {
    "CartPole": [([-0.05] * 4, [0.05] * 4), ([2.3, -1, -0.05, -1], [2.45, 3, 0.05, 1]), ([-0.5, -1, 0.19, 0], [0.5, 1, 0.22, 3]), ([-2.45, -3, -0.22, -3], [-2.3, 0, -0.19, 0])],
    "MountainCar": [([-0.6, 0.0], [-0.4, 0.0]), ([0.42, 0.03], [0.52, 0.07]), ([-1.2, -0.07], [-1.15, 0.0]), ([-1.2, -0.07], [0.6, 0.07])],
    "ContinuousMountainCar": [([-0.6, 0.0], [-0.4, 0.0]), ([0.42, 0.03], [0.52, 0.07]), ([-1.2, -0.07], [-1.15, 0.0]), ([-1.2, -0.07], [0.6, 0.07])],
    "Pendulum": [([-np.pi, -1.0], [np.pi, 1.0]), ([-np.pi, -8.0], [np.pi, 8.0])],
    "Acrobot": [([-0.1] * 4, [0.1] * 4), ([2.0, -1.0, -2, -2], [3.14, 1.0, 2, 2]), ([-3.14, -3.14, -12, -28], [3.14, 3.14, 12, 28])],
}


def _classic_state(env, name, y, t, count):
    from lerax.env import classic_control as cc
    from lerax.wrapper.misc import TimeLimitState

    cls = {"CartPole": "CartPoleState", "MountainCar": "MountainCarState", "ContinuousMountainCar": "ContinuousMountainCarState", "Pendulum": "PendulumState", "Acrobot": "AcrobotState"}[name]
    import importlib

    mod = importlib.import_module(cc.__name__ + "." + {"CartPole": "cartpole", "MountainCar": "mountain_car", "ContinuousMountainCar": "continuous_mountain_car", "Pendulum": "pendulum", "Acrobot": "acrobot"}[name])
    st_ = getattr(mod, cls)(y=jnp.asarray(y, dtype=float), t=jnp.asarray(t, dtype=float))
    if count is not None:
        st_ = TimeLimitState(step_count=count, env_state=st_)
    return st_


@functools.lru_cache(maxsize=None)
def _classic(name, tl):
    return classic_env(name, tl)


def oracle_classic(ctx: Ctx, case):
    name, tl = case["env"], case["time_limit"]
    env = _classic(name, 5 if tl is not None else None)
    if tl is not None:
        env = eqx.tree_at(lambda e: e.max_episode_steps, env, jnp.asarray(tl, dtype=int))
    fresh = classic_fresh(name)
    tags = {"env": name}
    if case["start"] is None:
        state, obs, info = env.reset(key=jr.key(case["key"]))
        ctx.check(fresh(state) is None, "C01/reset-state-not-initial", tags=tags, why=fresh(state))
        ctx.check(tree_equal(obs, observe(env, state, jr.key(1))), "C01/reset-observation-not-of-returned-state", tags=tags)
    else:
        state = _classic_state(env, name, case["start"]["y"], case["start"]["t"], case["start"]["count"] if tl is not None else None)
    flags = set()
    for i, a in enumerate(case["actions"]):
        act = jnp.asarray(a, dtype=float) if isinstance(env.action_space, __import__("lerax").space.Box) else jnp.asarray(int(a), dtype=int)
        state, obs, r, term, trunc, comp = check_step(ctx, env, state, act, case["key"] + i, fresh, tags)
        if tl is not None:
            # TimeLimit counter semantics on a real environment
            pass
        if term and trunc:
            flags.add("both")
        elif term:
            flags.add("term")
        elif trunc:
            flags.add("trunc")
    ctx.count(nontrivial=bool(flags), classes=sorted(flags) + [name], key=[name, tl, sorted(flags), case["key"] % 256])


@st.composite
def classic_cases(draw, name, with_tl):
    regions = CLASSIC_REGIONS[name]
    tl = draw(st.integers(1, 6)) if with_tl else None
    if draw(st.integers(0, 4)) == 0:
        start = None
    else:
        lo, hi = regions[draw(st.integers(0, len(regions) - 1))]
        y = [draw(st.floats(a, b, allow_nan=False)) if a < b else float(a) for a, b in zip(lo, hi)]
        start = {"y": y, "t": draw(st.sampled_from([0.0, 0.5, 3.0])), "count": draw(st.integers(0, tl - 1)) if tl else 0}
    n = draw(st.integers(1, 8))
    if name in ("ContinuousMountainCar", "Pendulum"):
        b = 1.0 if name == "ContinuousMountainCar" else 2.0
        acts = [draw(st.one_of(st.sampled_from([-b, b, 0.0]), st.floats(-b, b, allow_nan=False))) for _ in range(n)]
    else:
        k = 2 if name == "CartPole" else 3
        hold = draw(st.integers(0, k - 1))
        acts = [hold if draw(st.booleans()) else draw(st.integers(0, k - 1)) for _ in range(n)]
    return {"env": name, "time_limit": tl, "start": start, "actions": acts, "key": draw(st.integers(0, 2**31 - 100))}


# ----------------------------------------------------------------------------- MuJoCo / G1 (process pool)
def mujoco_worker(ctx: Ctx, payload):
    """Step contract on a MuJoCo environment: start states reached by short action prefixes;
    termination is made frequent by large-magnitude corner actions."""
    name, n_hist, hist_len, tl = payload
    from lerax.env import mujoco as mj
    from lerax.wrapper import TimeLimit

    if name.startswith("G1"):
        from lerax.env.unitree import g1

        # the only configuration in which the components do not use their key
        env = getattr(g1, name)(push_enable=False, noise_level=0.0)
    else:
        env = getattr(mj, name)()
    base = env
    if tl:
        env = TimeLimit(env, tl)
    low, high = np.asarray(base.action_space.low), np.asarray(base.action_space.high)
    tags = {"env": name}

    def fresh(state):
        cs = wrapref.time_limit_counters(state)
        if any(c != 0 for c in cs):
            return f"time-limit counters not restarted: {cs}"
        b = wrapref.base_state(state)
        if float(b.t) != 0.0:
            return f"episode clock not restarted: t={float(b.t)}"
        if float(b.sim_state.time) != 0.0:
            return f"simulation clock not restarted: {float(b.sim_state.time)}"
        if hasattr(b, "step_count") and float(b.step_count) != 0.0:
            return f"step counter not restarted: {float(b.step_count)}"
        return None

    rng = np.random.default_rng(ctx.seed)  # enumeration of histories inside a worker; recorded in the case
    for h in range(n_hist):
        key = int(rng.integers(0, 2**31 - 1000))
        mode = ["uniform", "corner", "hold"][h % 3]
        hold = np.where(rng.random(low.shape) < 0.5, low, high)
        acts = []
        for t in range(hist_len):
            if mode == "uniform":
                a = rng.uniform(low, high)
            elif mode == "corner":
                a = np.where(rng.random(low.shape) < 0.5, low, high)
            else:
                a = hold
            acts.append(a.astype(np.float32).tolist())
        case = {"env": name, "time_limit": tl, "key": key, "actions": acts}
        try:
            ctx.call("mujoco", oracle_mujoco_case(env, fresh, tags), case)
        except Exception as v:  # Violation -> record and go on with the next history
            from vlib.runner import Violation

            if isinstance(v, Violation):
                ctx.violations.append(v)
                ctx.skip_buckets.add(v.bucket)
            else:
                raise


def oracle_mujoco_case(env, fresh, tags):
    def oracle(ctx, case):
        state, obs, info = env.reset(key=jr.key(case["key"]))
        ctx.check(fresh(state) is None, "C01/reset-state-not-initial", tags=tags, why=fresh(state))
        ctx.check(tree_close(obs, observe(env, state, jr.key(1))), "C01/reset-observation-not-of-returned-state", tags=tags)
        flags = set()
        for i, a in enumerate(case["actions"]):
            state, obs, r, term, trunc, comp = check_step(ctx, env, state, jnp.asarray(a), case["key"] + 1 + i, fresh, tags, exact=False)
            if term and trunc:
                flags.add("both")
            elif term:
                flags.add("term")
            elif trunc:
                flags.add("trunc")
        ctx.count(nontrivial=bool(flags), classes=sorted(flags) + [case["env"]], key=[case["env"], case["time_limit"], sorted(flags), case["key"] % 256])

    return oracle


def oracle_mujoco(ctx: Ctx, case):
    from lerax.env import mujoco as mj
    from lerax.wrapper import TimeLimit

    if case["env"].startswith("G1"):
        from lerax.env.unitree import g1

        env = getattr(g1, case["env"])(push_enable=False, noise_level=0.0)
    else:
        env = getattr(mj, case["env"])()
    if case["time_limit"]:
        env = TimeLimit(env, case["time_limit"])
    tags = {"env": case["env"]}

    def fresh(state):
        cs = wrapref.time_limit_counters(state)
        b = wrapref.base_state(state)
        if any(c != 0 for c in cs) or float(b.t) != 0.0 or float(b.sim_state.time) != 0.0:
            return "clock/counter not restarted"
        return None

    oracle_mujoco_case(env, fresh, tags)(ctx, case)


PARTS = {"stack": oracle_trace, "classic": oracle_classic, "mujoco": oracle_mujoco}


def run(ctx: Ctx):
    ctx.rule = (
        "Rule-based machine (reset / step) over wrapper stacks of depth 0-4 on generated finite MDPs, in lock-step with a NumPy "
        "reference of the stack; classic-control envs bare and under TimeLimit from boundary-biased start states; MuJoCo envs "
        "(process pool) along random/corner/held action histories. After every step: reward/flags are those of "
        "transition/reward/terminal/truncate of this very transition, returned observation is the returned state's, a raised "
        "flag returns a fresh initial state (clock, counters restarted), otherwise the successor leaf-for-leaf. Non-trivial: a "
        "history with a raised flag; distinct by (env/stack, flag set, length or key bucket)."
    )
    ctx.assumptions = [
        "transition/reward/terminal/observation of the family, classic-control and MuJoCo envs do not use their key (asserted per case)",
        "initial support of built-in envs = documented reset ranges",
    ]
    rng = np.random.default_rng(ctx.seed)
    pool = {}
    for kind, n in (("disc", ctx.n(8, 40)), ("box", ctx.n(6, 30)), ("pytree", ctx.n(3, 10))):
        progs = [[]] + wrapref.program_pool(kind, rng, n)
        pool[kind] = [wrapref.fill_perms(p, SIZES[kind][1], rng) for p in progs]
    StackMachine.POOL = pool
    ctx.notes["wrapper_programs"] = sum(len(v) for v in pool.values())
    ctx.run_machine("stack", StackMachine, ctx.n(120, 2500), ctx.n(12, 30))
    for name in ("CartPole", "MountainCar", "ContinuousMountainCar", "Pendulum", "Acrobot"):
        for with_tl in (False, True):
            ctx.run_given("classic", classic_cases(name, with_tl), oracle_classic, ctx.n(25, 400))
    envs = ["InvertedPendulum", "Hopper"] if ctx.quick else ["InvertedPendulum", "Hopper", "Ant", "HalfCheetah", "Humanoid", "HumanoidStandup", "InvertedDoublePendulum", "Pusher", "Reacher", "Swimmer", "Walker2d"]
    payloads = [(e, ctx.n(6, 40), ctx.n(12, 40), tl) for e in envs for tl in ((0, 5) if ctx.quick else (0, 3, 7))]
    if not ctx.quick:
        payloads += [(e, 6, 12, tl) for e in ("G1Standing", "G1Locomotion", "G1Standup") for tl in (0, 4)]
    run_pool(ctx, "checks.c01_step_reset", "mujoco_worker", payloads)
    ctx.require_fraction("stack", "trunc", 0.06)
    ctx.require_fraction("stack", "term", 0.06)
    ctx.require_fraction("stack", "both", 0.015)
