"""C12 — JAX transformations are transparent; parallel environments never mix."""

from __future__ import annotations

import functools

import jax
import numpy as np

import equinox as eqx
from hypothesis import strategies as st
from jax import numpy as jnp
from jax import random as jr

from vlib import mdp, onpolicy
from vlib.doubles import StashCallback, TableQPolicy
from vlib.runner import Ctx, Violation, run_pool

CLASSIC = ["CartPole", "MountainCar", "ContinuousMountainCar", "Pendulum", "Acrobot"]


# ----------------------------------------------------------------------------- (a) eager = jit = vmap
def _funcs(env):
    def initial(k):
        return env.initial(key=k)

    def transition(s, a, k):
        return env.transition(s, a, key=k)

    def observation(s, k):
        return env.observation(s, key=k)

    def reward(s, a, s2, k):
        return env.reward(s, a, s2, key=k)

    def terminal(s, k):
        return env.terminal(s, key=k)

    def truncate(s):
        return env.truncate(s)

    return dict(initial=initial, transition=transition, observation=observation, reward=reward, terminal=terminal, truncate=truncate)


def _close(a, b, rtol, atol, normwise=False):
    """Leaf-wise comparison.  `normwise`: the error of a float leaf is measured against the largest magnitude
    in that leaf (simulator data such as inertias, constraint forces and accelerations hold large and tiny
    entries side by side; reassociation error scales with the large ones)."""
    la, ta = jax.tree.flatten(a)
    lb, tb = jax.tree.flatten(b)
    if ta != tb:
        return "tree structure differs"
    for x, y in zip(la, lb):
        x, y = np.asarray(x), np.asarray(y)
        if x.shape != y.shape:
            return f"shape {x.shape} vs {y.shape}"
        if x.dtype != y.dtype:
            return f"dtype {x.dtype} vs {y.dtype}"
        if np.issubdtype(x.dtype, np.floating):
            if normwise:
                fin = np.isfinite(x) & np.isfinite(y)
                if not np.array_equal(np.isfinite(x), np.isfinite(y)):
                    return "non-finite pattern differs"
                if fin.any() and float(np.max(np.abs(x[fin] - y[fin]))) > atol + rtol * float(np.max(np.abs(y[fin]))):
                    return f"values differ by {float(np.max(np.abs(x[fin] - y[fin]))):.3g} (leaf scale {float(np.max(np.abs(y[fin]))):.3g})"
            elif not np.allclose(x, y, rtol=rtol, atol=atol, equal_nan=True):
                return f"values differ by {float(np.nanmax(np.abs(x - y))):.3g}"
        elif not np.array_equal(x, y):
            return "integer/bool values differ"
    return None


def _heavy_view(x):
    """For MuJoCo / G1 states only the physical state and the task bookkeeping are compared; solver internals
    of mjx.Data (accelerations, constraint forces, warm starts) are not well-conditioned functions of the inputs
    in float32 (seen: 2% between the vmapped and the single program for a G1 standing on its feet)."""
    if hasattr(x, "sim_state"):
        d = x.sim_state
        view = {"qpos": d.qpos, "qvel": d.qvel, "time": d.time, "t": x.t}
        for f in ("gait_phase", "gait_frequency", "command", "step_count", "last_action", "last_contact", "feet_air_time"):
            if hasattr(x, f):
                view[f] = getattr(x, f)
        return view
    if hasattr(x, "env_state"):
        return {"wrapper": {k: v for k, v in vars(x).items() if k != "env_state"}, "inner": _heavy_view(x.env_state)}
    return x


def build(name, stack, host_opts=False):
    from checks.c02_spaces_along_rollouts import build_env

    opts = {"push_enable": False, "noise_level": 0.0} if name.startswith("G1") else {}
    if host_opts and name in CLASSIC:
        # every numeric constructor option re-passed with its default value, but as a plain Python float / list (how a user
        # would type it): an option stored without conversion works eagerly and breaks under tracing
        import inspect

        from lerax.env import classic_control as cc

        for k, prm in inspect.signature(getattr(cc, name).__init__).parameters.items():
            d = prm.default
            if isinstance(d, bool) or d is inspect.Parameter.empty or d is None:
                continue
            if isinstance(d, (int, float)) or hasattr(d, "shape"):
                opts[k] = np.asarray(d).tolist()
    return build_env(name, opts, stack)


def modes_case(ctx: Ctx, case):
    name, stack, B = case["env"], case["stack"], case["batch"]
    env = build(name, stack, case.get("host_opts", False))
    heavy = name not in CLASSIC
    # MuJoCo / G1: float32 contact solvers amplify reassociation differences between the vmapped and the
    # single program (seen: 2e-3 in a HalfCheetah successor, 1.4e-4 in Humanoid inertias); norm-wise 2e-3
    rtol, atol = (2e-3, 2e-4) if heavy else (1e-5, 1e-6)
    F = _funcs(env)
    tags = {"env": name, "stack": "+".join(stack) or "bare"}
    keys = jr.split(jr.key(case["key"]), B)
    J = {n: jax.jit(f) for n, f in F.items()}
    V = {n: jax.jit(jax.vmap(f)) for n, f in F.items()}
    # states reached by a short action prefix (through the jitted functions)
    states = V["initial"](keys)
    acts = jax.vmap(lambda k: env.action_space.sample(key=k))(jr.split(jr.key(case["key"] + 1), B))
    for p in range(case["prefix"]):
        acts_p = jax.vmap(lambda k: env.action_space.sample(key=k))(jr.split(jr.key(case["key"] + 10 + p), B))
        states = V["transition"](states, acts_p, keys)
    nxt = V["transition"](states, acts, keys)
    batched = dict(initial=(keys,), transition=(states, acts, keys), observation=(states, keys), reward=(states, acts, nxt, keys), terminal=(nxt, keys), truncate=(nxt,))
    eager_fns = case["eager"]
    n_checked = 0
    for fn, args in batched.items():
        vout = V[fn](*args)
        for i in range(B if not heavy else min(B, 2)):
            one = jax.tree.map(lambda x: x[i], args)
            jout = J[fn](*one)
            vi = jax.tree.map(lambda x: x[i], vout)
            if heavy:
                # one frame-skipped control step through a float32 contact solver: 5% norm-wise on the state
                r_, a_ = (5e-2, 5e-3) if fn in ("transition", "reward") else (rtol, atol)
                why = _close(_heavy_view(vi), _heavy_view(jout), r_, a_, normwise=True)
            else:
                why = _close(vi, jout, rtol, atol)
            ctx.check(why is None, f"C12/{fn}/vmap-differs-from-jit", tags=tags, why=why, index=i)
            jout2 = J[fn](*one)
            ctx.check(_close(jout, jout2, 0, 0) is None, f"C12/{fn}/same-arguments-different-results", tags=tags)
            if fn in eager_fns and i == 0:
                eout = F[fn](*one)
                why = _close(_heavy_view(eout), _heavy_view(jout), rtol, atol, normwise=True) if heavy else _close(eout, jout, rtol, atol)
                ctx.check(why is None, f"C12/{fn}/eager-differs-from-jit", tags=tags, why=why)
            n_checked += 1
    ctx.count(nontrivial=True, classes=[name, tags["stack"], f"B={B}"] + ["host_form_options"] * bool(case.get("host_opts")), key=[name, stack, B, case["key"]])


def modes_worker(ctx: Ctx, payload):
    for case in payload:
        try:
            ctx.call("modes", modes_case, case)
        except Violation as v:
            ctx.violations.append(v)
            ctx.skip_buckets.add(v.bucket)


# ----------------------------------------------------------------------------- (b) parallel environments never mix
def _stack_states(spec, starts):
    sts = [onpolicy.step_state(spec, s, c, c) for s, c in starts]
    return jax.tree.map(lambda *xs: jnp.stack(xs), *sts)


def oracle_collect_vmapped(ctx: Ctx, case):
    """filter_vmap(collect_rollout) over (step states, keys) == N single-environment collections."""
    from checks.c04_onpolicy_rollout import _build

    spec, env, policy, interp = _build(case)
    T, N = case["T"], len(case["starts"])
    algo = onpolicy.with_gamma(onpolicy.algo_template(case["algo"], N, T), case["gamma"], case["lam"] if case["algo"] != "REINFORCE" else None)
    algo1 = onpolicy.with_gamma(onpolicy.algo_template(case["algo"], 1, T), case["gamma"], case["lam"] if case["algo"] != "REINFORCE" else None)
    keys = jr.split(jr.key(case["key"]), N)
    ss_v, buf_v = onpolicy.collect_vmapped(algo, env, policy, _stack_states(spec, case["starts"]), keys)
    ends = 0
    for i, (s, c) in enumerate(case["starts"]):
        ss_i, buf_i = onpolicy.collect(algo1, env, policy, onpolicy.step_state(spec, s, c, c), keys[i])
        sl = jax.tree.map(lambda x: x[i], buf_v)
        for fld in ("observations", "actions", "dones", "action_masks", "states"):
            # integer / boolean leaves exactly; float leaves (Box actions and the observed executed action) up to reassociation
            ctx.check(_close(getattr(sl, fld), getattr(buf_i, fld), 1e-6, 1e-6) is None, f"C12/collect/vmapped-slice-differs-from-single-env/{fld}", tags={"algo": case["algo"]}, env=i, why=_close(getattr(sl, fld), getattr(buf_i, fld), 1e-6, 1e-6))
        for fld in ("rewards", "values", "log_probs", "advantages", "returns"):
            why = _close(getattr(sl, fld), getattr(buf_i, fld), 1e-5, 1e-5)
            ctx.check(why is None, f"C12/collect/vmapped-slice-differs-from-single-env/{fld}", tags={"algo": case["algo"]}, env=i, why=why)
        ctx.check(_close(jax.tree.map(lambda x: x[i], ss_v), ss_i, 1e-6, 1e-6) is None, "C12/collect/vmapped-carried-state-differs", tags={"algo": case["algo"]}, env=i)
        ends += int(np.asarray(buf_i.dones).sum())
    ctx.count(nontrivial=ends >= 1 and N >= 2, classes=[case["algo"], f"N={N}"], key=[case["config"], case["algo"], N, case["key"] % 256])


def _perturb(interp, s):
    others = [i for i in range(interp.nS) if interp.I[i] and i != s]
    return others[0] if others else None


def oracle_noninterference(ctx: Ctx, case):
    """Through iteration(): replacing only env j's start state leaves every field of env i != j bit-identical."""
    from checks.c04_onpolicy_rollout import _build

    spec, env, policy, interp = _build(case)
    T, N, j = case["T"], case["E"], case["j"]
    algo = onpolicy.with_gamma(onpolicy.algo_template(case["algo"], N, T), case["gamma"], case["lam"] if case["algo"] != "REINFORCE" else None)
    cb = StashCallback(("rollout_buffer",))
    state = onpolicy.reset_algo(algo, env, policy, jr.key(case["key"]), cb)
    s_all = np.asarray(mdp_base(spec, state.step_state.env_state).s)
    new_s = _perturb(interp, int(s_all[j]))
    if new_s is None:
        ctx.count(nontrivial=False, classes=["single_start_state"])
        return
    s2 = jnp.asarray(s_all).at[j].set(new_s)
    state_b = eqx.tree_at(lambda st_: mdp_base(spec, st_.step_state.env_state).s, state, s2.astype(mdp_base(spec, state.step_state.env_state).s.dtype))
    out_a = onpolicy.iterate(algo, state, jr.key(case["key"] + 1), cb)
    out_b = onpolicy.iterate(algo, state_b, jr.key(case["key"] + 1), cb)
    buf_a, buf_b = out_a.callback_state.data["rollout_buffer"], out_b.callback_state.data["rollout_buffer"]
    tags = {"algo": case["algo"]}
    effective = _close(jax.tree.map(lambda x: x[j], buf_a), jax.tree.map(lambda x: x[j], buf_b), 0, 0) is not None
    ends = 0
    for i in range(N):
        if i == j:
            continue
        a_i, b_i = jax.tree.map(lambda x: x[i], buf_a), jax.tree.map(lambda x: x[i], buf_b)
        for fld in ("observations", "actions", "rewards", "dones", "log_probs", "values", "returns", "advantages", "states", "action_masks"):
            ctx.check(_close(getattr(a_i, fld), getattr(b_i, fld), 0, 0) is None, f"C12/noninterference/{fld}-of-another-environment-changed", tags=tags, perturbed=j, observed=i)
        ctx.check(_close(jax.tree.map(lambda x: x[i], out_a.step_state), jax.tree.map(lambda x: x[i], out_b.step_state), 0, 0) is None, "C12/noninterference/carried-state-of-another-environment-changed", tags=tags)
        ends += int(np.asarray(a_i.dones).sum())
    ctx.count(nontrivial=effective and ends >= 1, classes=[case["algo"], f"N={N}"] + ["effective"] * effective, key=[case["config"], case["algo"], N, j, case["key"] % 256])


def mdp_base(spec, env_state):
    return env_state.env_state if spec.get("time_limit") is not None else env_state


def oracle_noninterference_offpolicy(ctx: Ctx, case):
    from checks import c05_offpolicy_collect as c05

    combo = case["combo"]
    name, nS, nA, shape, B, L, E, S = c05.COMBOS[combo]
    spec = case["spec"]
    env = mdp.make_env(spec)
    interp = mdp.Interp(spec)
    policy = TableQPolicy(env, spec, case["q"], case["epsilon"])
    algo = eqx.tree_at(lambda a: a.gamma, c05._algo(combo), jnp.asarray(0.9, dtype=jnp.float32))
    cb = StashCallback(())
    state = c05._reset(algo, env, policy, jr.key(case["key"]), cb)
    j = case["j"] % E
    s_all = np.asarray(mdp_base(spec, state.step_state.env_state).s)
    new_s = _perturb(interp, int(s_all[j]))
    if new_s is None:
        ctx.count(nontrivial=False, classes=["single_start_state"])
        return
    leaf = mdp_base(spec, state.step_state.env_state).s
    state_b = eqx.tree_at(lambda st_: mdp_base(spec, st_.step_state.env_state).s, state, leaf.at[j].set(new_s))
    out_a = c05._iterate(algo, state, jr.key(case["key"] + 1), cb)
    out_b = c05._iterate(algo, state_b, jr.key(case["key"] + 1), cb)
    eff = _close(jax.tree.map(lambda x: x[j], out_a.step_state.buffer), jax.tree.map(lambda x: x[j], out_b.step_state.buffer), 0, 0) is not None
    for i in range(E):
        if i == j:
            continue
        ctx.check(_close(jax.tree.map(lambda x: x[i], out_a.step_state), jax.tree.map(lambda x: x[i], out_b.step_state), 0, 0) is None, "C12/noninterference/off-policy-state-or-buffer-of-another-environment-changed", tags={"algo": name}, perturbed=j, observed=i)
    ctx.count(nontrivial=eff, classes=[combo] + ["effective"] * eff, key=[combo, j, case["key"] % 256])


def oracle_independent_streams(ctx: Ctx, case):
    """Through the real reset()/iteration(): N environments that start in the *same* state under a uniform-random policy are
    N independent collections, so their action sequences cannot all coincide (chance 3^-32 for N=3, 16 steps); if one
    environment's randomness is reused for another they stay in lock-step for ever."""
    spec = case["spec"]
    env = mdp.make_env(spec)
    N, tags = case["E"], {"algo": case["algo"]}
    if case["algo"] in ("PPO", "A2C", "REINFORCE"):
        policy = onpolicy.table_policy(env, spec, case["policy"])
        algo = onpolicy.with_gamma(onpolicy.algo_template(case["algo"], N, case["T"]), 0.9, 0.9 if case["algo"] != "REINFORCE" else None)
        cb = StashCallback(("rollout_buffer",))
        state = onpolicy.reset_algo(algo, env, policy, jr.key(case["key"]), cb)
        out = onpolicy.iterate(algo, state, jr.key(case["key"] + 1), cb)
        acts = np.asarray(out.callback_state.data["rollout_buffer"].actions).reshape(N, -1)
        obs0 = np.asarray(jax.tree.leaves(out.callback_state.data["rollout_buffer"].observations)[0]).reshape(N, case["T"], -1)[:, 0]
    else:
        from checks import c05_offpolicy_collect as c05

        policy = TableQPolicy(env, spec, [[0.0] * spec["nA"]] * spec["nS"], 1.0)
        algo = _streams_dqn(N)
        cb = StashCallback(())
        state = c05._reset(algo, env, policy, jr.key(case["key"]), cb)
        for k in range(3):
            state = c05._iterate(algo, state, jr.key(case["key"] + 1 + k), cb)
        buf = state.step_state.buffer
        n = int(np.asarray(buf.position).reshape(-1)[0])
        acts = np.asarray(buf.actions)[:, :n].reshape(N, -1)
        obs0 = np.asarray(jax.tree.leaves(buf.observations)[0])[:, 0].reshape(N, -1)
    same_start = bool(all(np.array_equal(obs0[0], obs0[i]) for i in range(N)))
    lockstep = bool(all(np.array_equal(acts[0], acts[i]) for i in range(1, N)))
    ctx.check(not lockstep, "C12/streams/parallel-environments-reuse-one-environments-randomness", tags=tags, N=N, steps=int(acts.shape[1]), actions=acts[0].tolist())
    ctx.count(nontrivial=same_start and acts.shape[1] >= 16, classes=[case["algo"], f"N={N}"] + ["same_start"] * same_start, key=[case["algo"], N, case["key"]])


@functools.lru_cache(maxsize=None)
def _streams_dqn(E):
    from lerax.algorithm import DQN

    return DQN(buffer_size=40 * E, learning_starts=4, num_envs=E, num_steps=4, batch_size=2, learning_rate=0.0, target_update_interval=2)


@functools.lru_cache(maxsize=None)
def _dqn_greedy(E, S):
    from lerax.algorithm import DQN

    return DQN(buffer_size=8 * E, learning_starts=1, num_envs=E, num_steps=S, batch_size=1, learning_rate=0.5, target_update_interval=1000)


def oracle_dqn_parallel_policy(ctx: Ctx, case):
    """The vectorised DQN collection acts with the same (current, online) policy a single-environment
    collection uses: with a greedy Q-table policy every newly stored action is the arg-max of the online
    table as it stood at the start of that iteration, for every environment."""
    from checks import c05_offpolicy_collect as c05

    spec, E, S = case["spec"], case["E"], case["S"]
    env = mdp.make_env(spec)
    interp = mdp.Interp(spec)
    policy = TableQPolicy(env, spec, case["q"], 0.0)
    algo = _dqn_greedy(E, S)
    cb = StashCallback(())
    state = c05._reset(algo, env, policy, jr.key(case["key"]), cb)
    cap = 8 if E > 1 else 8
    moved = differs = False
    total = 1
    for k in range(1, case["iters"] + 1):
        q_online = np.asarray(state.policy.q, np.float64)
        q_target = np.asarray(state.target_policy.q, np.float64)
        differs |= bool((q_online.argmax(1) != q_target.argmax(1)).any())

        w_online = np.asarray(state.policy.w, np.float64)  # the double's Q-values may depend on its counter state

        def chooser(s, n, q=q_online, w=w_online):
            row = q[s] + w * n
            top = np.sort(row)[::-1]
            return None if len(top) > 1 and top[0] - top[1] < 1e-5 * (1 + abs(top[0])) else int(np.argmax(row))

        prev = state
        state = c05._iterate(algo, state, jr.key(case["key"] + k), cb)
        moved |= not np.array_equal(np.asarray(state.policy.q), q_online)
        new_total = total + S
        for e in range(E):
            ss0 = prev.step_state if E == 1 else jax.tree.map(lambda x: x[e], prev.step_state)
            s0, c0, acc0 = mdp.read_state(spec, ss0.env_state)
            c05.walk_stream(ctx, spec, interp, state.step_state.buffer, e, E, cap, total, new_total, (s0, c0, int(ss0.policy_state.n), acc0), {"algo": "DQN", "E": E}, chooser=chooser)
        total = new_total
    ctx.count(nontrivial=E > 1 and differs, classes=[f"E={E}"] + ["online_differs_from_target"] * differs + ["trained"] * moved, key=[E, S, case["key"] % 256, case["iters"]])


PARTS = {"independent_streams": oracle_independent_streams, "dqn_parallel_policy": oracle_dqn_parallel_policy, "modes": modes_case, "collect_vmapped": oracle_collect_vmapped, "noninterference": oracle_noninterference, "noninterference_offpolicy": oracle_noninterference_offpolicy}


@st.composite
def collect_cases(draw, config, algo, N, T):
    from checks.c04_onpolicy_rollout import rollout_cases

    case = draw(rollout_cases(config, T, "some", algos=(algo,)))
    nS, Ntl = case["spec"]["nS"], case["spec"]["time_limit"]
    case["starts"] = [[draw(st.integers(0, nS - 1)), draw(st.integers(0, Ntl - 1))] for _ in range(N)]
    return case


@st.composite
def nonint_cases(draw, config, algo, E, T):
    from checks.c04_onpolicy_rollout import rollout_cases

    case = draw(rollout_cases(config, T, "some", algos=(algo,), E=E))
    case["spec"]["I"] = [True] * case["spec"]["nS"] if draw(st.booleans()) else case["spec"]["I"]
    case["j"] = draw(st.integers(0, E - 1))
    return case


@st.composite
def streams_cases(draw, algo, E, T):
    from checks.c04_onpolicy_rollout import rollout_cases

    case = draw(rollout_cases("disc-onehot", T, "some", algos=(algo,) if algo != "DQN" else ("PPO",), E=E))
    nS, nA = case["spec"]["nS"], case["spec"]["nA"]
    case["spec"]["I"] = [i == 0 for i in range(nS)]  # one initial state: every environment starts (and restarts) identically
    case["policy"]["logits"] = [[0.0] * nA for _ in range(nS)]  # uniform behaviour
    case["algo"] = algo
    return case


@st.composite
def offpolicy_cases(draw, combo):
    from checks.c05_offpolicy_collect import cases

    case = draw(cases(combo, "some"))
    case["spec"]["I"] = [True] * case["spec"]["nS"]
    case["j"] = draw(st.integers(0, 5))
    return case


@st.composite
def dqn_policy_cases(draw, E, S):
    spec = draw(mdp.mdp_specs(fixed_sizes=(4, 3), fixed_time_limit="some", time_limits=(None, 3, 5, 8)))
    spec["I"] = [True] * 4
    return {"spec": spec, "E": E, "S": S, "q": [[draw(st.floats(-1, 1, allow_nan=False).map(lambda x: round(x, 2))) for _ in range(3)] for _ in range(4)], "iters": draw(st.integers(2, 3)), "key": draw(st.integers(0, 2**31 - 100))}


def run(ctx: Ctx):
    ctx.rule = (
        "(a) every built-in environment (and wrapper stacks): initial/transition/observation/reward/terminal/truncate evaluated "
        "eagerly, under jit and vmapped over batches of 2-5 (states reached by short action prefixes, sampled actions, keys) must "
        "agree up to float32 reassociation (ints/bools exactly) and repeat identically; (b1) the vmapped collect_rollout call "
        "iteration() makes equals N single-environment collections slice by slice on generated finite MDPs; (b2) through "
        "iteration() (buffer captured from ctx.locals): replacing only env j's start state leaves every field of every other "
        "env's slice (incl. advantages/returns and carried state) bit-identical, on-policy (PPO/A2C/REINFORCE) and off-policy "
        "(DQN buffers); (b4) N environments started in the same state under a uniform policy never run in lock-step through reset()/iteration() (on-policy and DQN); (b3) vectorised DQN collection acts with the current online policy (greedy Q-table, learning rate 0.5, late target sync) exactly as single-environment collection does. Non-trivial: perturbation effective for env j and an episode end in another env."
    )
    ctx.assumptions = ["float32 default mode; tolerance rtol 1e-5/atol 1e-6 element-wise (classic) and 2e-3/2e-4 norm-wise per leaf (MuJoCo / G1 single transitions)"]
    rng = np.random.default_rng(ctx.seed + 12)
    payloads = []
    all_fns = ["initial", "transition", "observation", "reward", "terminal", "truncate"]
    for name in CLASSIC:
        stacks = [[], ["TimeLimit"]] if ctx.quick else [[], ["TimeLimit"], ["FlattenObservation", "ClipObservation"]] + ([["RescaleAction"], ["ClipAction", "TimeLimit"]] if name in ("Pendulum", "ContinuousMountainCar") else [])
        payloads.append([{"env": name, "stack": s, "batch": int(rng.integers(2, 6)), "prefix": int(rng.integers(0, 4)), "key": int(rng.integers(0, 2**31 - 100)), "eager": all_fns} for s in stacks for _ in range(ctx.n(2, 8))])
    for name in CLASSIC:
        payloads.append([{"env": name, "stack": [], "host_opts": True, "batch": 3, "prefix": 1, "key": int(rng.integers(0, 2**31 - 100)), "eager": all_fns}])
    mj = ["InvertedPendulum", "Hopper", "Reacher"] if ctx.quick else ["InvertedPendulum", "InvertedDoublePendulum", "HalfCheetah", "Hopper", "Walker2d", "Swimmer", "Reacher", "Pusher", "Ant", "Humanoid", "HumanoidStandup"]
    for name in mj:
        payloads.append([{"env": name, "stack": [], "batch": 2, "prefix": int(rng.integers(0, 3)), "key": int(rng.integers(0, 2**31 - 100)), "eager": ["observation", "reward", "terminal", "truncate"]} for _ in range(ctx.n(1, 3))])
    if not ctx.quick:
        for name in ("G1Locomotion", "G1Standing", "G1Standup"):
            payloads.append([{"env": name, "stack": [], "batch": 2, "prefix": 1, "key": int(rng.integers(0, 2**31 - 100)), "eager": ["terminal", "truncate"]}])
    run_pool(ctx, "checks.c12_transformations", "modes_worker", payloads, procs=16)
    plan = [("disc-onehot", "PPO", 3, 8), ("box-scalar", "A2C", 2, 5), ("disc-masked", "REINFORCE", 4, 8)]
    if not ctx.quick:
        plan += [("disc-dict", "PPO", 4, 16), ("box-vec2", "PPO", 3, 5)]
    for config, algo, N, T in plan:
        ctx.run_given("collect_vmapped", collect_cases(config, algo, N, T), oracle_collect_vmapped, ctx.n(30, 500), shrink=False)
        ctx.run_given("noninterference", nonint_cases(config, algo, N, T), oracle_noninterference, ctx.n(30, 500), shrink=False)
    for algo, E, T in (("PPO", 3, 16), ("DQN", 3, 16)) if ctx.quick else (("PPO", 3, 16), ("A2C", 2, 32), ("REINFORCE", 4, 16), ("DQN", 3, 16), ("DQN", 2, 16)):
        ctx.run_given("independent_streams", streams_cases(algo, E, T), oracle_independent_streams, ctx.n(15, 300), shrink=False)
    for combo in ("dqn-3env-wrap", "dqn-2env-ls0"):
        ctx.run_given("noninterference_offpolicy", offpolicy_cases(combo), oracle_noninterference_offpolicy, ctx.n(25, 400), shrink=False)
    for E, S in ((3, 2), (1, 2)) if ctx.quick else ((3, 2), (1, 2), (2, 3), (4, 1)):
        ctx.run_given("dqn_parallel_policy", dqn_policy_cases(E, S), oracle_dqn_parallel_policy, ctx.n(40, 600), shrink=False)
    ctx.require_fraction("noninterference", "effective", 0.2)
    ctx.require_fraction("dqn_parallel_policy", "online_differs_from_target", 0.3)
