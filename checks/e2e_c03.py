"""C03 end-to-end part: the buffer the real iteration() trains on satisfies the GAE identity per
environment row, with V_T = the policy's value of the post-rollout observation."""

from __future__ import annotations

import jax
import numpy as np
from hypothesis import strategies as st
from jax import numpy as jnp
from jax import random as jr

from checks.c04_onpolicy_rollout import CONFIGS, _build, rollout_cases
from vlib import mdp, onpolicy, refs
from vlib.doubles import CounterState, StashCallback
from vlib.runner import Ctx


def oracle_e2e(ctx: Ctx, case):
    spec, env, policy, interp = _build(case)
    T, E = case["T"], case["E"]
    lam = 1.0 if case["algo"] == "REINFORCE" else case["lam"]
    # lambda = 1 / 0 are the documented Monte-Carlo / TD limits and are naturally typed as ints
    lam_arg = int(lam) if case.get("lam_int") and lam in (0.0, 1.0) else lam
    algo = onpolicy.with_gamma(onpolicy.algo_template(case["algo"], E, T), case["gamma"], None if case["algo"] == "REINFORCE" else lam_arg)
    cb = StashCallback(("rollout_buffer",))
    state = onpolicy.reset_algo(algo, env, policy, jr.key(case["key"]), cb)
    state2 = onpolicy.iterate(algo, state, jr.key(case["key"] + 7), cb)
    buf = state2.callback_state.data["rollout_buffer"]
    R = np.asarray(buf.rewards).reshape(E, T)
    V = np.asarray(buf.values).reshape(E, T)
    D = np.array(buf.dones).reshape(E, T)
    A = np.asarray(buf.advantages).reshape(E, T)
    G = np.asarray(buf.returns).reshape(E, T)
    ctx.check(np.asarray(buf.rewards).shape == ((T,) if E == 1 else (E, T)), "C03/e2e/buffer-shape", shape=list(np.asarray(buf.rewards).shape))
    inner = False
    acts = np.asarray(buf.actions).reshape((E, T) + np.asarray(buf.actions).shape[(1 if E == 1 else 2) :])
    for e in range(E):
        ss1 = state2.step_state if E == 1 else jax.tree.map(lambda x: x[e], state2.step_state)
        # episode ends as the *environment* produced them (terminal or truncated), replayed with the interpreter from the
        # state the rollout started in - not the buffer's own done column, which is what is under test together with GAE
        ss0 = state.step_state if E == 1 else jax.tree.map(lambda x: x[e], state.step_state)
        s0, c0, _ = mdp.read_state(spec, ss0.env_state)
        obs_e = buf.observations if E == 1 else jax.tree.map(lambda x: x[e], buf.observations)
        ends = []
        for t in range(T):
            s0_, c0_, _, term, trunc = interp.step(s0, c0, interp.clip(acts[e][t]))
            ends.append(bool(term or trunc))
            if ends[-1] and t + 1 < T:
                s0, c0 = interp.decode_obs(onpolicy.row(obs_e, t + 1))[0], 0
            else:
                s0, c0 = s0_, c0_
        D[e] = np.asarray(ends)
        s, c, acc = mdp.read_state(spec, ss1.env_state)
        obs = interp.obs(s, acc)
        if spec["obs_kind"] == "dict":
            from collections import OrderedDict

            obs = OrderedDict(obs)
        vT = float(policy.value(CounterState(jnp.asarray(0)), jax.tree.map(jnp.asarray, obs))[1])
        ref_adv, ref_ret = refs.gae(R[e], V[e], D[e], vT, case["gamma"], lam)
        ctx.close(A[e], ref_adv, "C03/e2e/advantages-not-per-env-GAE", rtol=1e-9, atol=1e-9, tags={"algo": case["algo"]}, env=e, E=E)
        ctx.close(G[e], ref_ret, "C03/e2e/returns-not-per-env-GAE", rtol=1e-9, atol=1e-9, tags={"algo": case["algo"]}, env=e, E=E)
        inner |= bool(D[e][:-1].any())
    ctx.count(nontrivial=inner and case["gamma"] * lam > 0, classes=[case["algo"], f"E={E}"] + ["int_lambda"] * isinstance(lam_arg, int), key=[case["algo"], E, T, D.tolist(), case["gamma"], lam])


def run(ctx: Ctx):
    plan = [("disc-onehot", "PPO", 3, 8), ("box-scalar", "A2C", 3, 5), ("disc-masked", "REINFORCE", 1, 8)]
    if not ctx.quick:
        plan += [("disc-onehot", "A2C", 1, 16), ("box-vec2", "PPO", 3, 16), ("disc-id", "REINFORCE", 3, 5)]
    for config, algo, E, T in plan:
        ctx.run_given("e2e", rollout_cases(config, T, "some", algos=(algo,), E=E).flatmap(lambda c: st.booleans().map(lambda b: {**c, "lam_int": b})), oracle_e2e, ctx.n(60, 800))
