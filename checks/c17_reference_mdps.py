"""C17 — built-in environments realise their Gymnasium reference MDPs."""

from __future__ import annotations

import functools

import jax

jax.config.update("jax_enable_x64", True)

import diffrax
import equinox as eqx
import gymnasium as gym
import numpy as np
from hypothesis import strategies as st
from jax import numpy as jnp
from jax import random as jr

from checks.c01_step_reset import _classic_state
from lerax.env import classic_control as cc
from vlib.runner import Ctx, run_pool

GYM_ID = {"CartPole": "CartPole-v1", "MountainCar": "MountainCar-v0", "ContinuousMountainCar": "MountainCarContinuous-v0", "Acrobot": "Acrobot-v1"}


@functools.lru_cache(maxsize=None)
def genv(name):
    return gym.make(GYM_ID[name]).unwrapped


@functools.lru_cache(maxsize=None)
def lenv(name, euler=False):
    cls = getattr(cc, name)
    return cls(solver=diffrax.Euler()) if euler else cls()


def gym_step_from(name, s, a):
    """Drive the Gymnasium reference from state s with action a; returns (s', reward, terminated)."""
    g = genv(name)
    g.reset(seed=0)
    if name == "ContinuousMountainCar":
        g.state = np.array(s, dtype=np.float32)
        _, r, term, _, _ = g.step(np.array([a], dtype=np.float32))
    elif name == "CartPole":
        g.state = np.array(s, dtype=np.float64)
        g.steps_beyond_terminated = None
        _, r, term, _, _ = g.step(int(a))
    elif name == "MountainCar":
        g.state = (float(s[0]), float(s[1]))
        _, r, term, _, _ = g.step(int(a))
    else:
        g.state = np.array(s, dtype=np.float64)
        _, r, term, _, _ = g.step(int(a))
    return np.asarray(g.state, np.float64), float(r), bool(term)


@eqx.filter_jit
def _dyn(env, y, a):
    return env.dynamics(jnp.asarray(0.0), y, a)


@eqx.filter_jit
def _clip(env, y):
    return env.clip(y)


@eqx.filter_jit
def _rt(env, s, a, s2, k):
    return env.reward(s, a, s2, key=k), env.terminal(s2, key=k)


def _act(name, a):
    return jnp.asarray(a, dtype=float) if name == "ContinuousMountainCar" else jnp.asarray(int(a), dtype=int)


# ----------------------------------------------------------------------------- vector field
def ref_field(name, y, a):
    """Continuous-time vector field of the Gymnasium reference (derived from its own code)."""
    g = genv(name)
    y = np.asarray(y, np.float64)
    if name == "Acrobot":
        torque = g.AVAIL_TORQUE[int(a)]
        return np.asarray(g._dsdt(np.append(y, torque)), np.float64)[:4]
    if name == "CartPole":
        assert g.kinematics_integrator == "euler"
        s2, _, _ = gym_step_from(name, y, a)
        # x' = x + tau*x_dot; x_dot' = x_dot + tau*xacc (explicit Euler) => (s' - s)/tau is the field
        return (s2 - y) / g.tau
    if name == "MountainCar":
        return np.array([y[1], (int(a) - 1) * g.force - np.cos(3 * y[0]) * g.gravity])
    force = min(max(float(a), g.min_action), g.max_action)
    return np.array([y[1], force * g.power - 0.0025 * np.cos(3 * y[0])])


def oracle_field(ctx: Ctx, case):
    name, y, a = case["env"], case["y"], case["action"]
    got = np.asarray(_dyn(lenv(name), jnp.asarray(y, dtype=float), _act(name, a)), np.float64)
    exp = ref_field(name, y, a)
    tags = {"env": name}
    tol = 1e-6 if name == "CartPole" else 1e-9  # CartPole's field is a finite difference of the reference step
    ctx.close(got, exp, f"C17/{name}/vector-field-differs-from-reference", tags=tags, rtol=tol, atol=tol * 10, y=y, action=a)
    if name in ("MountainCar", "ContinuousMountainCar"):
        # validate the transcription of the reference against its own step (where no limit is active)
        s2, _, _ = gym_step_from(name, y, a)
        g = genv(name)
        v_new = y[1] + exp[1]
        if abs(v_new) < g.max_speed * 0.999 and g.min_position * 0.999 < y[0] + v_new < g.max_position * 0.999:
            ctx.close(s2[1] - y[1], exp[1], "C17/harness/reference-field-transcription", tags=tags, rtol=1e-4 if name == "ContinuousMountainCar" else 1e-9, atol=1e-7 if name == "ContinuousMountainCar" else 1e-12)
    ctx.count(nontrivial=True, classes=[name], key=[name, [round(float(v), 4) for v in y], a])


# ----------------------------------------------------------------------------- state limits
def ref_limits(name, y):
    """Gymnasium's limit rules applied to a raw post-integration state."""
    g = genv(name)
    y = np.asarray(y, np.float64).copy()
    if name in ("MountainCar", "ContinuousMountainCar"):
        x, v = y
        v = min(max(v, -g.max_speed), g.max_speed)
        x = min(max(x, g.min_position), g.max_position)
        if x == g.min_position and v < 0:
            v = 0.0
        return np.array([x, v])
    if name == "Acrobot":
        from gymnasium.envs.classic_control.acrobot import bound, wrap

        return np.array([wrap(y[0], -np.pi, np.pi), wrap(y[1], -np.pi, np.pi), bound(y[2], -g.MAX_VEL_1, g.MAX_VEL_1), bound(y[3], -g.MAX_VEL_2, g.MAX_VEL_2)])
    return y  # CartPole: no limits on the state itself


def oracle_limits(ctx: Ctx, case):
    name, y = case["env"], case["y"]
    got = np.asarray(_clip(lenv(name), jnp.asarray(y, dtype=float)), np.float64)
    exp = ref_limits(name, y)
    tags = {"env": name}
    if name == "Acrobot":
        # angles are compared on the circle (pi and -pi are the same configuration)
        ctx.close(np.cos(got[:2]), np.cos(exp[:2]), f"C17/{name}/angle-wrap", tags=tags, rtol=1e-9, atol=1e-9)
        ctx.close(np.sin(got[:2]), np.sin(exp[:2]), f"C17/{name}/angle-wrap", tags=tags, rtol=1e-9, atol=1e-9)
        ctx.check(bool(np.all(np.abs(got[:2]) <= np.pi + 1e-12)), f"C17/{name}/angle-outside-[-pi,pi]", tags=tags, got=got)
        ctx.close(got[2:], exp[2:], f"C17/{name}/velocity-limits", tags=tags, rtol=1e-12, atol=1e-12)
        active = bool(np.any(np.abs(np.asarray(y)[:2]) > np.pi) or np.any(got[2:] != np.asarray(y)[2:]))
    else:
        if not np.allclose(got, exp, rtol=1e-12, atol=1e-12):
            g = genv(name)
            at_wall = exp[0] == g.min_position and y[1] < 0
            ctx.fail(f"C17/{name}/" + ("left-wall-not-inelastic" if at_wall and got[1] < 0 else "state-limits-differ-from-reference"), tags=tags, raw=y, observed=got, expected=exp)
        active = not np.allclose(exp, y)
    ctx.count(nontrivial=active, classes=[name] + ["limit_active"] * active, key=[name, [round(float(v), 4) for v in y]])


def oracle_gym_rules(ctx: Ctx, case):
    """Oracle validation: ref_limits + ref_field reproduce Gymnasium's own step on MountainCar envs
    (semi-implicit Euler: v += acc; clip v; x += v; clip x; wall)."""
    name, y, a = case["env"], case["y"], case["action"]
    g = genv(name)
    f = ref_field(name, y, a)
    v = min(max(y[1] + f[1], -g.max_speed), g.max_speed)
    raw = np.array([y[0] + v, v])
    exp = ref_limits(name, raw)
    s2, _, _ = gym_step_from(name, y, a)
    tol = 1e-6 if name == "ContinuousMountainCar" else 1e-12
    ctx.close(exp, s2, "C17/harness/limit-rules-do-not-reproduce-gymnasium-step", tags={"env": name}, rtol=tol, atol=tol)
    ctx.count(nontrivial=not np.allclose(raw, exp), classes=[name], key=[name, [round(float(v_), 4) for v_ in y], a])


# ----------------------------------------------------------------------------- reward / termination of a transition
def oracle_transition(ctx: Ctx, case):
    """Gymnasium produces (s, a) -> (s', r, terminated); the same triple is judged by lerax."""
    name, y, a = case["env"], case["y"], case["action"]
    s2, r, term = gym_step_from(name, y, a)
    env = lenv(name)
    st0 = _classic_state(env, name, y, 0.0, None)
    st1 = _classic_state(env, name, s2.tolist(), 0.1, None)
    lr, lt = _rt(env, st0, _act(name, a), st1, jr.key(0))
    tags = {"env": name}
    ctx.check(bool(lt) == term, f"C17/{name}/termination-predicate-differs", tags=tags, s_next=s2, lerax=bool(lt), reference=term)
    if not np.isclose(float(lr), r, rtol=1e-6, atol=1e-7):
        ctx.fail(f"C17/{name}/reward-differs" + ("-on-the-goal-or-terminal-step" if term else ""), tags=tags, s=y, action=a, s_next=s2, lerax=float(lr), reference=r)
    ctx.count(nontrivial=term, classes=[name] + ["terminal_step"] * term, key=[name, [round(float(v), 4) for v in y], a])


# ----------------------------------------------------------------------------- CartPole(Euler) trajectories
@eqx.filter_jit
def _roll(env, state, actions):
    def f(s, a):
        s2 = env.transition(s, a, key=jr.key(0))
        return s2, (s2.y, env.reward(s, a, s2, key=jr.key(0)), env.terminal(s2, key=jr.key(0)))

    return jax.lax.scan(f, state, actions)[1]


def oracle_cartpole_traj(ctx: Ctx, case):
    env = lenv("CartPole", euler=True)
    g = genv("CartPole")
    g.reset(seed=0)
    g.state = np.array(case["y"], dtype=np.float64)
    g.steps_beyond_terminated = None
    acts = case["actions"]
    ys, rs, ts = _roll(env, _classic_state(env, "CartPole", case["y"], 0.0, None), jnp.asarray(acts, dtype=int))
    n_ok = 0
    for i, a in enumerate(acts):
        _, r, term, _, _ = g.step(int(a))
        ctx.close(np.asarray(ys)[i], np.asarray(g.state, np.float64), "C17/CartPole/euler-trajectory-differs", tags={"env": "CartPole"}, rtol=1e-9, atol=1e-9, step=i)
        ctx.check(bool(np.asarray(ts)[i]) == bool(term) and float(np.asarray(rs)[i]) == float(r), "C17/CartPole/euler-trajectory-reward-or-termination", tags={"env": "CartPole"}, step=i)
        n_ok += 1
        if term:
            break
    ctx.count(nontrivial=n_ok >= 10, classes=["CartPole", "terminated" if n_ok < len(acts) else "full"], key=[[round(v, 4) for v in case["y"]], acts[:8]])


# ----------------------------------------------------------------------------- initial-state ranges
RESET_RANGE = {
    "CartPole": (np.full(4, -0.05), np.full(4, 0.05)),
    "MountainCar": (np.array([-0.6, 0.0]), np.array([-0.4, 0.0])),
    "ContinuousMountainCar": (np.array([-0.6, 0.0]), np.array([-0.4, 0.0])),
    "Acrobot": (np.full(4, -0.1), np.full(4, 0.1)),
}


def oracle_initial(ctx: Ctx, case):
    name = case["env"]
    env = lenv(name)
    ys = np.asarray(jax.vmap(lambda k: env.initial(key=k).y)(jr.split(jr.key(case["key"]), 4096)), np.float64)
    ts = np.asarray(jax.vmap(lambda k: env.initial(key=k).t)(jr.split(jr.key(case["key"]), 8)))
    lo, hi = RESET_RANGE[name]
    tags = {"env": name}
    ctx.check(bool(np.all(ys >= lo - 1e-9) and np.all(ys <= hi + 1e-9)), f"C17/{name}/initial-state-outside-reference-range", tags=tags, min=ys.min(0), max=ys.max(0))
    span = hi - lo
    ok = np.all((ys.min(0) <= lo + 0.02 * span + 1e-12) & (ys.max(0) >= hi - 0.02 * span - 1e-12))
    ctx.check(bool(ok), f"C17/{name}/initial-state-does-not-cover-reference-range", tags=tags, min=ys.min(0), max=ys.max(0))
    ctx.check(bool(np.all(ts == 0)), f"C17/{name}/initial-clock", tags=tags)
    # and the Gymnasium reference itself resets inside the same range (oracle validation)
    g = genv(name)
    for s in range(8):
        g.reset(seed=case["key"] % 1000 + s)
        gs = np.asarray(g.state, np.float64)
        ctx.check(bool(np.all(gs >= lo - 1e-7) and np.all(gs <= hi + 1e-7)), "C17/harness/reference-reset-range", tags=tags, state=gs)
    ctx.count(nontrivial=True, classes=[name], key=[name, case["key"]])


# ----------------------------------------------------------------------------- MuJoCo (process pool)
def mujoco_worker(ctx: Ctx, payload):
    # MuJoCo layers run in the default float32 mode users get (this module enabled x64 on import)
    jax.config.update("jax_enable_x64", False)
    from checks import mj_c17 as c17_mujoco

    c17_mujoco.worker(ctx, payload)


def _mj(part):
    def f(ctx, case):
        from checks import mj_c17 as c17_mujoco

        return c17_mujoco.PARTS[part](ctx, case)

    return f


PARTS = {
    "field": oracle_field,
    "limits": oracle_limits,
    "gym_rules": oracle_gym_rules,
    "transition": oracle_transition,
    "cartpole_traj": oracle_cartpole_traj,
    "initial": oracle_initial,
    "mj_boundary": _mj("mj_boundary"),
    "mj_reset": _mj("mj_reset"),
    "mj_step": _mj("mj_step"),
    "mj_model": _mj("mj_model"),
    "mj_physics": _mj("mj_physics"),
    "mj_options": _mj("mj_options"),
}

# ----------------------------------------------------------------------------- strategies
# state boxes with boundary bias: (low, high) regions per env
REGIONS = {
    "CartPole": [([-2.5, -3, -0.25, -3], [2.5, 3, 0.25, 3]), ([2.3, 0, -0.05, -1], [2.45, 3, 0.05, 1]), ([-0.5, -1, 0.19, 0], [0.5, 1, 0.22, 3]), ([-2.45, -3, -0.22, -3], [-2.3, 0, -0.19, 0])],
    "MountainCar": [([-1.2, -0.07], [0.6, 0.07]), ([0.40, 0.0], [0.52, 0.07]), ([-1.2, -0.07], [-1.12, 0.0]), ([0.49, -0.002], [0.51, 0.004])],
    "ContinuousMountainCar": [([-1.2, -0.07], [0.6, 0.07]), ([0.40, 0.0], [0.52, 0.07]), ([-1.2, -0.07], [-1.12, 0.0]), ([0.44, 0.0], [0.46, 0.07])],
    "Acrobot": [([-3.14, -3.14, -12.5, -28.2], [3.14, 3.14, 12.5, 28.2]), ([2.0, -1.0, -2, -2], [3.14, 1.0, 2, 2]), ([-3.14, -3.14, 11, 26], [3.14, 3.14, 12.56, 28.27])],
}
N_ACT = {"CartPole": 2, "MountainCar": 3, "Acrobot": 3}


@st.composite
def state_cases(draw, name, raw=False):
    lo, hi = REGIONS[name][draw(st.integers(0, len(REGIONS[name]) - 1))]
    y = [float(np.float32(draw(st.floats(a, b, allow_nan=False)))) if name == "ContinuousMountainCar" else draw(st.floats(a, b, allow_nan=False)) for a, b in zip(lo, hi)]
    if raw:  # raw post-integration states may lie outside the limits
        scale = {"MountainCar": [1.3, 1.5], "ContinuousMountainCar": [1.3, 1.5], "Acrobot": [3.0, 3.0, 1.3, 1.3], "CartPole": [1, 1, 1, 1]}[name]
        y = [v * s if draw(st.booleans()) else v for v, s in zip(y, scale)]
        if name != "Acrobot" and draw(st.integers(0, 3)) == 0:
            y[0] = -1.2 - draw(st.floats(0, 0.1, allow_nan=False))
    if name == "ContinuousMountainCar":
        a = float(np.float32(draw(st.one_of(st.sampled_from([-1.0, 1.0, 0.0]), st.floats(-1, 1, allow_nan=False)))))
    else:
        a = draw(st.integers(0, N_ACT[name] - 1))
    return {"env": name, "y": y, "action": a}


@st.composite
def traj_cases(draw):
    lo, hi = draw(st.sampled_from([([-0.05] * 4, [0.05] * 4), ([-1.5, -1, -0.1, -1], [1.5, 1, 0.1, 1]), ([1.9, 0.5, -0.05, -0.5], [2.3, 2, 0.05, 0.5])]))
    y = [draw(st.floats(a, b, allow_nan=False)) for a, b in zip(lo, hi)]
    n = draw(st.integers(5, 200))
    mode = draw(st.sampled_from(["random", "alternate", "hold"]))
    if mode == "random":
        acts = [draw(st.integers(0, 1)) for _ in range(n)]
    elif mode == "alternate":
        acts = [i % 2 for i in range(n)]
    else:
        acts = [draw(st.integers(0, 1))] * n
    # one compile per length: pad to 200 and let the oracle stop at termination / n
    return {"y": y, "actions": (acts + [0] * 200)[:200]}


def run(ctx: Ctx):
    ctx.rule = (
        "Classic control (x64): states over the whole state box with boundary bias (goal region, left wall, thresholds, velocity "
        "caps) x all actions: lerax.dynamics vs the reference's own vector field (Acrobot _dsdt; CartPole finite difference of "
        "its Euler step; MountainCar formulas validated against the reference step), lerax.clip vs the reference's limit rules "
        "(validated against Gymnasium's step in the same run), reward/termination of the very transition Gymnasium produced, "
        "CartPole(Euler) trajectories of up to 200 steps, initial-state ranges over 4096 keys. MuJoCo (process pool, float32): "
        "model/frame-skip/dt identity, reset observation vs Gymnasium after set_state, step semantics with physics substituted "
        "(Gymnasium's own step() on lerax's successor state), single-step physics vs C MuJoCo, documented constructor options (every flag toggled, drawn weight/range changes; uph_cost_weight excluded because the reference ignores it) vs Gymnasium built with the same options. Non-trivial: transition reaching "
        "the goal/terminal set or touching a limit; MuJoCo: first step of an episode, unhealthy successor, contact."
    )
    ctx.assumptions = ["Gymnasium 1.3 classic-control and MuJoCo v5 environments and MuJoCo C physics are the reference", "x64 for classic control"]
    for name in ("CartPole", "MountainCar", "ContinuousMountainCar", "Acrobot"):
        ctx.run_given("field", state_cases(name), oracle_field, ctx.n(120, 4000))
        ctx.run_given("transition", state_cases(name), oracle_transition, ctx.n(200, 6000))
        if name != "CartPole":
            ctx.run_given("limits", state_cases(name, raw=True), oracle_limits, ctx.n(150, 4000))
        if name in ("MountainCar", "ContinuousMountainCar"):
            ctx.run_given("gym_rules", state_cases(name), oracle_gym_rules, ctx.n(100, 2000))
        ctx.run_cases("initial", [{"env": name, "key": ctx.seed * 7 + i} for i in range(ctx.n(2, 10))], oracle_initial)
    ctx.run_given("cartpole_traj", traj_cases(), oracle_cartpole_traj, ctx.n(40, 800))
    ctx.require_fraction("transition", "terminal_step", 0.1)
    ctx.require_fraction("limits", "limit_active", 0.3)
    try:
        from checks import mj_c17 as c17_mujoco
    except ImportError:
        return
    c17_mujoco.run(ctx)
