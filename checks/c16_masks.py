"""C16 — masked actions are never chosen; key-less policies act greedily."""

from __future__ import annotations

import functools
import itertools

import jax
import numpy as np
from scipy import special

import equinox as eqx
from hypothesis import strategies as st
from jax import numpy as jnp
from jax import random as jr

from lerax.distribution import Bernoulli, Categorical, MultiCategorical
from lerax.policy import MLPActorCriticPolicy, MLPQPolicy
from lerax.space import Box, Discrete, MultiBinary, MultiDiscrete
from vlib.runner import Ctx

NSAMP = 128
OBS = 3


@eqx.filter_jit
def _samples(dist, keys):
    return jax.vmap(dist.sample)(keys)


def _ref_probs(logits, mask):
    lg = np.asarray(logits, np.float64)
    m = np.asarray(mask, bool)
    p = special.softmax(lg)
    out = np.where(m, p, 0.0)
    return out / out.sum()


def _rtol(logits):
    """float32 evaluation of log-softmax loses about eps32 * max|logit| in the log-probability."""
    return 2e-5 + 6 * 1.2e-7 * float(np.max(np.abs(np.asarray(logits, np.float64))))


def _ref_masked_softmax(logits, mask):
    lg = np.where(np.asarray(mask, bool), np.asarray(logits, np.float64), -np.inf)
    return special.softmax(lg)


# ----------------------------------------------------------------------------- distributions
def oracle_categorical(ctx: Ctx, case):
    logits, mask = np.asarray(case["logits"], np.float32), np.asarray(case["mask"], bool)
    n = len(logits)
    d = Categorical(logits=jnp.asarray(logits)).mask(jnp.asarray(mask))
    ref = _ref_masked_softmax(logits, mask)
    tags = {"dist": "Categorical"}
    probs = np.asarray(d.probs, np.float64)
    ctx.check(bool(np.all(probs[~mask] == 0)), "C16/masked-action-has-positive-probability", tags=tags, probs=probs, mask=mask)
    ctx.close(probs, ref, "C16/masked-probabilities-not-renormalised-proportionally", tags=tags, rtol=_rtol(logits), atol=1e-7)
    for i in range(n):
        lp = float(d.log_prob(jnp.asarray(i)))
        if not mask[i]:
            ctx.check(lp == -np.inf, "C16/masked-action-log-prob-not-minus-inf", tags=tags, action=i, log_prob=lp)
        else:
            # log-domain reference (log(softmax) underflows to -inf below -745 in float64)
            lref = special.log_softmax(np.where(mask, logits.astype(np.float64), -np.inf))[i]
            ctx.close(lp, lref, "C16/masked-log-prob", tags=tags, rtol=2e-5, atol=2e-6 + _rtol(logits))
    mode = int(d.mode())
    ctx.check(bool(mask[mode]), "C16/mode-is-a-masked-action", tags=tags, mode=mode, mask=mask)
    ctx.check(ref[mode] >= ref.max() - 1e-6, "C16/mode-not-the-most-likely-allowed-action", tags=tags, mode=mode)
    xs = np.asarray(_samples(d, jr.split(jr.key(case["key"]), NSAMP)))
    ctx.check(bool(np.all(mask[xs])), "C16/sampled-a-masked-action", tags=tags, samples=np.unique(xs), mask=mask)
    # two-sided: every allowed action with probability > 0.3 shows up among 128 samples (miss prob 0.7^128 ~ 1e-20)
    for i in np.where(ref > 0.3)[0]:
        ctx.check(bool((xs == i).any()), "C16/mask-over-restricts-allowed-action-never-sampled", tags=tags, action=int(i), prob=ref[i])
    argmax_masked = not mask[int(np.argmax(logits))]
    ctx.count(nontrivial=argmax_masked or mask.sum() == 1, classes=[f"n={n}"] + ["argmax_masked"] * bool(argmax_masked) + ["single_allowed"] * bool(mask.sum() == 1), key=[case["mask"], case["logits"]])


def oracle_multicategorical(ctx: Ctx, case):
    dims, pieces, masks = case["dims"], case["pieces"], case["masks"]
    flat_logits = np.concatenate([np.asarray(p, np.float32) for p in pieces])
    base = MultiCategorical(logits=jnp.asarray(flat_logits), action_dims=tuple(dims))
    d_flat = base.mask(jnp.asarray(np.concatenate([np.asarray(m, bool) for m in masks])))
    d_seq = base.mask([jnp.asarray(np.asarray(m, bool)) for m in masks])
    tags = {"dist": "MultiCategorical"}
    refs = [_ref_masked_softmax(p, m) for p, m in zip(pieces, masks)]
    for nm, d in (("flat", d_flat), ("sequence", d_seq)):
        probs = np.asarray(d.probs, np.float64)
        ctx.close(probs, np.concatenate(refs), "C16/masked-probabilities-not-renormalised-proportionally", tags=tags, rtol=_rtol(flat_logits), atol=1e-7, form=nm)
        mode = np.asarray(d.mode())
        ctx.check(all(bool(np.asarray(m, bool)[mode[j]]) for j, m in enumerate(masks)), "C16/mode-is-a-masked-action", tags=tags, mode=mode, form=nm)
        xs = np.asarray(_samples(d, jr.split(jr.key(case["key"]), NSAMP)))
        for j, m in enumerate(masks):
            ctx.check(bool(np.all(np.asarray(m, bool)[xs[:, j]])), "C16/sampled-a-masked-action", tags=tags, component=j, form=nm)
            for i in np.where(refs[j] > 0.3)[0]:
                ctx.check(bool((xs[:, j] == i).any()), "C16/mask-over-restricts-allowed-action-never-sampled", tags=tags, component=j, action=int(i))
        # a fully specified masked combination has log-prob -inf
        bad = [int(np.argmin(np.asarray(m, bool))) if not all(m) else 0 for m in masks]
        if any(not all(m) for m in masks):
            ctx.check(float(d.log_prob(jnp.asarray(bad))) == -np.inf, "C16/masked-action-log-prob-not-minus-inf", tags=tags, action=bad, form=nm)
    restrict = any(not all(m) for m in masks)
    ctx.count(nontrivial=restrict and len(dims) >= 2, classes=[f"components={len(dims)}"] + ["restrictive"] * restrict, key=[dims, masks])


def oracle_bernoulli(ctx: Ctx, case):
    logits, mask = np.asarray(case["logits"], np.float32), np.asarray(case["mask"], bool)
    d = Bernoulli(logits=jnp.asarray(logits)).mask(jnp.asarray(mask))
    tags = {"dist": "Bernoulli"}
    p1 = np.asarray(d.probs, np.float64)
    ctx.check(bool(np.all(p1[~mask] == 0)), "C16/masked-action-has-positive-probability", tags=tags, probs=p1)
    ctx.close(p1[mask], special.expit(logits.astype(np.float64))[mask], "C16/unmasked-bits-changed", tags=tags, rtol=_rtol(logits), atol=1e-7)
    mode = np.asarray(d.mode())
    ctx.check(bool(np.all(mode[~mask] == 0)), "C16/mode-is-a-masked-action", tags=tags, mode=mode)
    xs = np.asarray(_samples(d, jr.split(jr.key(case["key"]), NSAMP)))
    ctx.check(bool(np.all(xs[:, ~mask] == 0)), "C16/sampled-a-masked-action", tags=tags)
    ctx.count(nontrivial=bool((~mask).any()), classes=[f"k={len(logits)}"], key=[case["mask"], case["logits"]])


# ----------------------------------------------------------------------------- policies
class _Env(eqx.Module):
    action_space: object
    observation_space: object


@functools.lru_cache(maxsize=None)
def _spaces(kind):
    return {"discrete": Discrete(5), "multidiscrete": MultiDiscrete((2, 3)), "multibinary": MultiBinary(3)}[kind]


def _scaled(policy, where, scale):
    lin = where(policy)
    return eqx.tree_at(lambda p: (where(p).weight, where(p).bias), policy, (lin.weight * scale, lin.bias * scale))


def _ac_policy(kind, key, scale=1.0):
    p = _ac_policy0(kind, key)
    return p if scale == 1.0 else _scaled(p, lambda q: q.action_head.action_dist.mapping, scale)


def _ac_policy0(kind, key):
    return MLPActorCriticPolicy(_Env(_spaces(kind), Box(-jnp.ones(OBS), jnp.ones(OBS))), feature_size=4, feature_width=8, feature_depth=1, value_width=8, value_depth=1, action_width=8, action_depth=1, key=jr.key(key))


@eqx.filter_jit
def _act(policy, obs, mask, keys):
    det = policy(None, obs, action_mask=mask)[1]
    sto = jax.vmap(lambda k: policy(None, obs, key=k, action_mask=mask)[1])(keys)
    av = jax.vmap(lambda k: policy.action_and_value(None, obs, key=k, action_mask=mask))(keys)
    return det, sto, av


@eqx.filter_jit
def _av_many(policy, obs, mask, keys):
    _, a, _, lp = jax.vmap(lambda k: policy.action_and_value(None, obs, key=k, action_mask=mask))(keys)
    return a, lp


@eqx.filter_jit
def _evaluate(policy, obs, actions, mask):
    return jax.vmap(lambda a: policy.evaluate_action(None, obs, a, action_mask=mask))(actions)


@eqx.filter_jit
def _dist_probs(policy, obs, mask):
    feats = policy.encoder(policy.observation_space.flatten_sample(obs))
    return policy.action_head(feats, action_mask=mask).probs


def _allowed(kind, mask, a):
    m = np.asarray(mask, bool)
    a = np.asarray(a)
    if kind == "discrete":
        return bool(m[int(a)])
    if kind == "multidiscrete":
        return bool(m[int(a[0])]) and bool(m[2 + int(a[1])])
    return bool(np.all(a[~m] == 0))


def oracle_ac_policy(ctx: Ctx, case):
    kind = case["kind"]
    policy = _ac_policy(kind, case["pkey"], case.get("scale", 1.0))
    obs = jnp.asarray(case["obs"], dtype=jnp.float32)
    mask = jnp.asarray(np.asarray(case["mask"], bool))
    keys = jr.split(jr.key(case["key"]), NSAMP)
    tags = {"policy": "MLPActorCriticPolicy", "kind": kind}
    det, sto, (_, av_a, av_v, av_lp) = _act(policy, obs, mask, keys)
    det2 = _act(policy, obs, mask, keys)[0]
    probs = np.asarray(_dist_probs(policy, obs, mask), np.float64)
    ctx.check(np.array_equal(np.asarray(det), np.asarray(det2)), "C16/keyless-policy-not-deterministic", tags=tags)
    ctx.check(_allowed(kind, case["mask"], det), "C16/policy/keyless-action-is-masked", tags=tags, action=np.asarray(det), mask=case["mask"])
    # greedy = mode of the masked distribution
    if kind == "discrete":
        ctx.check(probs[int(det)] >= probs.max() - 1e-6, "C16/policy/keyless-action-not-greedy", tags=tags, action=int(det), probs=probs)
    elif kind == "multidiscrete":
        d = np.asarray(det)
        ctx.check(probs[:2][d[0]] >= probs[:2].max() - 1e-6 and probs[2:][d[1]] >= probs[2:].max() - 1e-6, "C16/policy/keyless-action-not-greedy", tags=tags, action=d, probs=probs)
    else:
        d = np.asarray(det)
        ctx.check(bool(np.all((d == 1) == (probs > 0.5)) or np.any(np.abs(probs - 0.5) < 1e-6)), "C16/policy/keyless-action-not-greedy", tags=tags, action=d, probs=probs)
    for nm, arr in (("__call__", np.asarray(sto)), ("action_and_value", np.asarray(av_a))):
        ctx.check(all(_allowed(kind, case["mask"], a) for a in arr), "C16/policy/sampled-a-masked-action", tags=tags, via=nm, mask=case["mask"])
    # the log-prob reported with the sample is the one evaluate_action gives for it under the same mask
    _, ev_v, ev_lp, _ = _evaluate(policy, obs, av_a, mask)
    ctx.close(av_lp, ev_lp, "C16/policy/reported-log-prob-not-of-the-sampled-action", tags=tags, rtol=1e-5, atol=1e-5)
    ctx.check(bool(np.all(np.isfinite(np.asarray(av_lp)))), "C16/policy/non-finite-log-prob-of-own-sample", tags=tags)
    ctx.close(av_v, ev_v, "C16/policy/value-differs-between-act-and-evaluate", tags=tags, rtol=1e-6, atol=1e-6)
    joint = False
    if kind in ("multidiscrete", "multibinary"):
        # product laws: the *joint* frequencies of the sampled action vectors follow exp(reported log-prob) - components drawn
        # with shared randomness keep every marginal right and every reported number self-consistent, only the joint is off
        N2 = 1024
        acts2, lps2 = _av_many(policy, obs, mask, jr.split(jr.key(case["key"] + 1), N2))
        acts2, lps2 = np.asarray(acts2).reshape(N2, -1), np.asarray(lps2, np.float64)
        uniq, first, counts = np.unique(acts2, axis=0, return_index=True, return_counts=True)
        for a, i, c in zip(uniq, first, counts):
            from scipy.stats import binom

            pr = float(np.clip(np.exp(lps2[i]), 0.0, 1.0))
            # exact two-sided binomial tail; 1e-12 keeps the false-alarm rate negligible over every outcome of a thorough run
            tail = float(min(binom.cdf(int(c), N2, pr), binom.sf(int(c) - 1, N2, pr)))
            ctx.check(tail > 1e-12, "C16/policy/joint-sample-frequency-differs-from-reported-probability", tags=tags, action=a.tolist(), frequency=c / N2, reported_probability=pr, binomial_tail=tail)
        joint = len(uniq) >= 3
    m = np.asarray(case["mask"], bool)
    restrictive = not m.all()
    ctx.count(nontrivial=restrictive, classes=[kind] + ["restrictive"] * restrictive + ["joint_law_checked"] * joint, key=[kind, case["mask"], case["pkey"] % 128])


@eqx.filter_jit
def _q_act(policy, obs, mask, keys):
    det = policy(None, obs, action_mask=mask)[1]
    sto = jax.vmap(lambda k: policy(None, obs, key=k, action_mask=mask)[1])(keys)
    return det, sto, policy.q_values(None, obs)[1]


@functools.lru_cache(maxsize=None)
def _q_template(eps):
    return MLPQPolicy(_Env(Discrete(5), Box(-jnp.ones(OBS), jnp.ones(OBS))), epsilon=eps, width_size=8, depth=1, key=jr.key(0))


def _q_policy(eps, key):
    fresh = MLPQPolicy(_Env(Discrete(5), Box(-jnp.ones(OBS), jnp.ones(OBS))), epsilon=eps, width_size=8, depth=1, key=jr.key(key))
    return eqx.tree_at(lambda p: p.q_network, _q_template(eps), fresh.q_network)


def oracle_q_policy(ctx: Ctx, case):
    eps = case["epsilon"]
    policy = _q_policy(eps, case["pkey"])
    if case.get("scale", 1.0) != 1.0:
        policy = _scaled(policy, lambda q: q.q_network.layers[-1], case["scale"])
    obs = jnp.asarray(case["obs"], dtype=jnp.float32)
    m = np.asarray(case["mask"], bool)
    mask = jnp.asarray(m)
    n_keys = 2000
    det, sto, q = _q_act(policy, obs, mask, jr.split(jr.key(case["key"]), n_keys))
    q = np.asarray(q, np.float64)
    tags = {"policy": "MLPQPolicy", "epsilon": eps}
    greedy = int(np.argmax(np.where(m, q, -np.inf)))
    gap = np.sort(np.where(m, q, -np.inf))[::-1]
    tie = len(gap) > 1 and np.isfinite(gap[1]) and gap[0] - gap[1] < 1e-6
    ctx.check(bool(m[int(det)]), "C16/policy/keyless-action-is-masked", tags=tags, action=int(det), mask=case["mask"])
    if not tie:
        ctx.check(int(det) == greedy, "C16/policy/keyless-action-not-greedy", tags=tags, action=int(det), greedy=greedy, q=q)
    sto = np.asarray(sto)
    ctx.check(bool(np.all(m[sto])), "C16/policy/sampled-a-masked-action", tags=tags, mask=case["mask"], actions=np.unique(sto))
    if not tie:
        non_greedy = int(np.sum(sto != greedy))
        if eps <= 0:
            ctx.check(non_greedy == 0, "C16/policy/epsilon-zero-not-greedy", tags=tags, non_greedy=non_greedy)
        else:
            bound = eps * n_keys + 6.0 * np.sqrt(n_keys * eps * (1 - eps)) + 1  # 6 sigma: < 1e-9
            if non_greedy > bound:
                # confirm on an independent, larger run before calling it a violation
                n2 = 20000
                _, sto2, _ = _q_act(policy, obs, mask, jr.split(jr.key(case["key"] ^ 0x5EED), n2))
                ng2 = int(np.sum(np.asarray(sto2) != greedy))
                ctx.check(ng2 <= eps * n2 + 6.0 * np.sqrt(n2 * eps * (1 - eps)) + 1, "C16/policy/departs-from-greedy-more-often-than-epsilon", tags=tags, non_greedy=ng2, n=n2, epsilon=eps)
    ctx.count(nontrivial=not m.all() and (not m[int(np.argmax(q))] or m.sum() == 1), classes=[f"eps={eps}"] + ["argmax_masked"] * bool(not m[int(np.argmax(q))]), key=[eps, case["mask"], case["pkey"] % 128])


PARTS = {"categorical": oracle_categorical, "multicategorical": oracle_multicategorical, "bernoulli": oracle_bernoulli, "ac_policy": oracle_ac_policy, "q_policy": oracle_q_policy}

# ----------------------------------------------------------------------------- generators
_lg = st.one_of(st.integers(-3, 3).map(float), st.floats(-8, 8, allow_nan=False).map(lambda x: round(x, 3)), st.sampled_from([-30.0, 12.0, 400.0, -250.0, 130.0]))


def exhaustive_categorical(ctx, max_n, draws):
    """All non-empty masks for n <= max_n, each with `draws` logit vectors (seeded)."""
    rng = np.random.default_rng(ctx.seed + 16)
    for n in range(1, max_n + 1):
        for bits in itertools.product([False, True], repeat=n):
            if not any(bits):
                continue
            for j in range(draws):
                lg = rng.normal(0, 3, n).round(3)
                if j == 0 and not all(bits):
                    lg[int(np.argmin(bits))] = 9.0  # the unmasked arg-max is a masked action
                if j == 1 and n >= 2:
                    lg[:] = lg[0]  # ties
                if j == 2:
                    # widely separated logits (Q-values / returns in the hundreds): every allowed
                    # action's unmasked softmax probability underflows when the arg-max is masked
                    lg = rng.normal(0, 200, n).round(1)
                    if not all(bits):
                        lg[int(np.argmin(bits))] = 900.0
                yield {"logits": lg.tolist(), "mask": list(bits), "key": int(rng.integers(0, 2**31 - 1))}


@st.composite
def multicat_cases(draw):
    dims = draw(st.lists(st.integers(1, 4), min_size=1, max_size=3))
    masks = []
    for n in dims:
        m = draw(st.lists(st.booleans(), min_size=n, max_size=n))
        if not any(m):
            m[draw(st.integers(0, n - 1))] = True
        masks.append(m)
    return {"dims": dims, "pieces": [[draw(_lg) for _ in range(n)] for n in dims], "masks": masks, "key": draw(st.integers(0, 2**31 - 2))}


@st.composite
def bernoulli_cases(draw):
    k = draw(st.integers(1, 5))
    return {"logits": [draw(_lg) for _ in range(k)], "mask": draw(st.lists(st.booleans(), min_size=k, max_size=k)), "key": draw(st.integers(0, 2**31 - 2))}


@st.composite
def policy_cases(draw, kind):
    n = {"discrete": 5, "multidiscrete": 5, "multibinary": 3, "q": 5}[kind]
    m = draw(st.lists(st.booleans(), min_size=n, max_size=n))
    if kind in ("discrete", "q") and not any(m):
        m[draw(st.integers(0, n - 1))] = True
    if kind == "multidiscrete":
        if not any(m[:2]):
            m[draw(st.integers(0, 1))] = True
        if not any(m[2:]):
            m[2 + draw(st.integers(0, 2))] = True
    case = {"kind": kind, "mask": m, "obs": [draw(st.floats(-1, 1, allow_nan=False).map(lambda x: round(x, 3))) for _ in range(OBS)], "pkey": draw(st.integers(0, 2**31 - 2)), "key": draw(st.integers(0, 2**31 - 2))}
    if kind == "q":
        case["epsilon"] = draw(st.sampled_from([0.0, 0.25, 1.0, 0.05]))
    case["scale"] = draw(st.sampled_from([1.0, 1.0, 30.0, 3000.0]))
    return case


def run(ctx: Ctx):
    ctx.rule = (
        "All non-empty masks exhaustively for n <= 6 (5 for quick) x seeded logit draws (incl. the arg-max being masked, ties): "
        "masked Categorical probabilities vs float64 renormalised softmax, -inf log-prob, allowed mode, 128 samples all allowed and "
        "every allowed action with p>0.3 seen; MultiCategorical masks flat and as sequences, Bernoulli masks; end-to-end through "
        "MLPActorCriticPolicy over Discrete/MultiDiscrete/MultiBinary (key-less = mode, keyed samples allowed, reported log-prob == "
        "evaluate_action's) and MLPQPolicy with epsilon in {0, 0.05, 0.25, 1} (greedy without key, samples allowed, non-greedy "
        "frequency <= epsilon + 6 sigma over 2000 keys with a 20000-key confirmation). Non-trivial: mask removing the unmasked "
        "arg-max or leaving one action."
    )
    ctx.assumptions = ["float64 softmax reference", "JAX PRNG quality for the frequency bounds"]
    ctx.run_cases("categorical", exhaustive_categorical(ctx, ctx.n(5, 6), ctx.n(3, 8)), oracle_categorical)
    ctx.exhaustive = False
    ctx.notes["masks_exhaustive_upto_n"] = ctx.n(5, 6)
    ctx.run_given("multicategorical", multicat_cases(), oracle_multicategorical, ctx.n(100, 3000))
    ctx.run_given("bernoulli", bernoulli_cases(), oracle_bernoulli, ctx.n(100, 3000))
    for kind in ("discrete", "multidiscrete", "multibinary"):
        ctx.run_given("ac_policy", policy_cases(kind), oracle_ac_policy, ctx.n(120, 4000))
    ctx.run_given("q_policy", policy_cases("q"), oracle_q_policy, ctx.n(200, 5000))
