"""C03 — advantages/returns equal the GAE definition, cut at episode ends."""

from __future__ import annotations

import itertools

import jax

jax.config.update("jax_enable_x64", True)

import equinox as eqx
import numpy as np
from hypothesis import strategies as st
from jax import numpy as jnp

from lerax.buffer import RolloutBuffer
from vlib import refs
from vlib.runner import Ctx

RT, AT = 1e-9, 1e-9  # values up to 1e3 * T=32 -> sums up to ~3e4; atol relative to that scale


def _buffer(rewards, values, dones):
    T = len(rewards)
    return RolloutBuffer(
        observations=jnp.zeros((T, 1)),
        actions=jnp.zeros((T,), dtype=int),
        rewards=jnp.asarray(rewards, dtype=jnp.float64),
        dones=jnp.asarray(dones, dtype=bool),
        log_probs=jnp.zeros((T,)),
        values=jnp.asarray(values, dtype=jnp.float64),
        states=None,
    )


@eqx.filter_jit
def _gae(buffer, last_value, lam, gamma):
    return buffer.compute_returns_and_advantages(last_value, lam, gamma)


@eqx.filter_jit
def _gae_vmapped(buffer, last_value, lam, gamma):
    # exactly what the per-environment vmap in on_policy.iteration does to the estimator
    return jax.vmap(lambda b, lv: b.compute_returns_and_advantages(lv, lam, gamma))(buffer, last_value)


def _run(rewards, values, dones, last_value, lam, gamma):
    out = _gae(_buffer(rewards, values, dones), jnp.asarray(last_value, jnp.float64), jnp.asarray(lam), jnp.asarray(gamma))
    return np.asarray(out.advantages), np.asarray(out.returns), out


def _scale(case):
    m = max([abs(x) for x in case["rewards"]] + [abs(x) for x in case["values"]] + [abs(case["last_value"]), 1.0])
    return m * (len(case["rewards"]) + 1)


# ----------------------------------------------------------------------------- oracles
def oracle_formula(ctx: Ctx, case):
    r, v, d = case["rewards"], case["values"], case["dones"]
    g, l, lv = case["gamma"], case["lam"], case["last_value"]
    adv, ret, out = _run(r, v, d, lv, l, g)
    ref_adv, ref_ret = refs.gae(r, v, d, lv, g, l)
    T = len(r)
    inner_done = any(d[:-1]) if T > 1 else False
    ctx.count(
        nontrivial=inner_done and g * l > 0,
        classes=[f"T<={8 if T <= 8 else 32 if T <= 32 else 999}", "inner_done" if inner_done else "no_inner_done", "gl>0" if g * l > 0 else "gl=0"],
        key=[T, d, round(g, 6), round(l, 6)],
    )
    at = AT * _scale(case)
    ctx.close(adv, ref_adv, "C03/advantages!=GAE", rtol=RT, atol=at)
    ctx.close(ret, ref_ret, "C03/returns!=GAE+V", rtol=RT, atol=at)
    ctx.close(ret, adv + np.asarray(v, np.float64), "C03/returns!=advantages+values", rtol=RT, atol=at)
    # untouched fields
    ctx.check(np.array_equal(np.asarray(out.rewards), np.asarray(r, np.float64)), "C03/estimator-modified-rewards")
    ctx.check(np.array_equal(np.asarray(out.dones), np.asarray(d, bool)), "C03/estimator-modified-dones")
    ctx.check(np.array_equal(np.asarray(out.values), np.asarray(v, np.float64)), "C03/estimator-modified-values")
    # lambda limits, from the statement
    if l == 1.0:
        mc = refs.mc_returns(r, d, lv, g)
        ctx.close(ret, mc, "C03/lambda1-not-MC-return", rtol=RT, atol=at)
    if l == 0.0:
        vn = np.append(np.asarray(v, np.float64)[1:], lv)
        nd = 1.0 - np.asarray(d, np.float64)
        td = np.asarray(r, np.float64) + g * nd * vn - np.asarray(v, np.float64)
        ctx.close(adv, td, "C03/lambda0-not-TD-error", rtol=RT, atol=at)


def oracle_cut(ctx: Ctx, case):
    """Metamorphic: changing anything recorded after a done leaves everything up to it bit-identical."""
    r, v, d = list(case["rewards"]), list(case["values"]), list(case["dones"])
    k = case["cut"]  # index of a done step, k < T-1
    T = len(r)
    assert d[k] and k < T - 1
    adv0, ret0, _ = _run(r, v, d, case["last_value"], case["lam"], case["gamma"])
    r2, v2, d2 = list(r), list(v), list(d)
    for i, (dr, dv, fd) in enumerate(case["perturb"]):
        j = k + 1 + i
        if j >= T:
            break
        r2[j] += dr
        v2[j] += dv
        if fd:
            d2[j] = not d2[j]
    adv1, ret1, _ = _run(r2, v2, d2, case["last_value"] + case["dlast"], case["lam"], case["gamma"])
    changed = bool(np.any(adv0[k + 1 :] != adv1[k + 1 :])) or case["dlast"] != 0
    ctx.count(nontrivial=changed and case["gamma"] * case["lam"] > 0, classes=["effective" if changed else "ineffective"], key=[T, d, k, case["perturb"]])
    ctx.check(
        np.array_equal(adv0[: k + 1], adv1[: k + 1]) and np.array_equal(ret0[: k + 1], ret1[: k + 1]),
        "C03/post-done-data-leaks-backwards",
        before=adv0[: k + 1],
        after=adv1[: k + 1],
    )


def oracle_streams(ctx: Ctx, case):
    """E parallel streams estimated under vmap == each stream estimated alone."""
    R = np.asarray(case["rewards"], np.float64)  # (E, T)
    V = np.asarray(case["values"], np.float64)
    D = np.asarray(case["dones"], bool)
    LV = np.asarray(case["last_values"], np.float64)
    E, T = R.shape
    buf = RolloutBuffer(
        observations=jnp.zeros((E, T, 1)),
        actions=jnp.zeros((E, T), dtype=int),
        rewards=jnp.asarray(R),
        dones=jnp.asarray(D),
        log_probs=jnp.zeros((E, T)),
        values=jnp.asarray(V),
        states=None,
    )
    out = _gae_vmapped(buf, jnp.asarray(LV), jnp.asarray(case["lam"]), jnp.asarray(case["gamma"]))
    inner = bool(D[:, :-1].any()) if T > 1 else False
    ctx.count(nontrivial=inner and E > 1 and case["gamma"] * case["lam"] > 0, classes=[f"E={E}"], key=[E, T, D.tolist(), case["gamma"], case["lam"]])
    m = max(float(np.abs(R).max()), float(np.abs(V).max()), float(np.abs(LV).max()), 1.0) * (T + 1)
    for e in range(E):
        ref_adv, ref_ret = refs.gae(R[e], V[e], D[e], LV[e], case["gamma"], case["lam"])
        ctx.close(np.asarray(out.advantages)[e], ref_adv, "C03/vmapped-stream-advantages", rtol=RT, atol=AT * m, env=e)
        ctx.close(np.asarray(out.returns)[e], ref_ret, "C03/vmapped-stream-returns", rtol=RT, atol=AT * m, env=e)


def _e2e(ctx, case):
    from checks import e2e_c03 as c03_e2e

    return c03_e2e.oracle_e2e(ctx, case)


PARTS = {"formula": oracle_formula, "exhaustive": oracle_formula, "cut": oracle_cut, "streams": oracle_streams, "e2e": _e2e}

# ----------------------------------------------------------------------------- strategies
_val = st.one_of(
    st.floats(-1e3, 1e3, allow_nan=False, width=64),
    st.integers(-5, 5).map(float),
    st.sampled_from([0.0, 1.0, -1.0, 0.5]),
)
_unit = st.one_of(st.sampled_from([0.0, 1.0, 0.99, 0.95, 0.5]), st.floats(0.0, 1.0, allow_nan=False))


@st.composite
def _dones(draw, T):
    mode = draw(st.sampled_from(["none", "sparse", "dense", "all", "free"]))
    if mode == "none":
        return [False] * T
    if mode == "all":
        return [True] * T
    if mode == "free":
        return draw(st.lists(st.booleans(), min_size=T, max_size=T))
    p = 0.15 if mode == "sparse" else 0.6
    return [draw(st.floats(0, 1)) < p for _ in range(T)]


@st.composite
def formula_cases(draw, big=False):
    T = draw(st.sampled_from([64, 257]) if big else st.integers(1, 32))
    return {
        "rewards": draw(st.lists(_val, min_size=T, max_size=T)),
        "values": draw(st.lists(_val, min_size=T, max_size=T)),
        "dones": draw(_dones(T)),
        "last_value": draw(_val),
        "gamma": draw(_unit),
        "lam": draw(_unit),
    }


@st.composite
def cut_cases(draw):
    T = draw(st.integers(2, 24))
    k = draw(st.integers(0, T - 2))
    d = draw(_dones(T))
    d[k] = True
    npert = draw(st.integers(1, T - 1 - k))
    return {
        "rewards": draw(st.lists(_val, min_size=T, max_size=T)),
        "values": draw(st.lists(_val, min_size=T, max_size=T)),
        "dones": d,
        "last_value": draw(_val),
        "gamma": draw(_unit),
        "lam": draw(_unit),
        "cut": k,
        "perturb": [[draw(_val), draw(_val), draw(st.booleans())] for _ in range(npert)],
        "dlast": draw(_val),
    }


@st.composite
def stream_cases(draw):
    E = draw(st.integers(1, 4))
    T = draw(st.sampled_from([1, 2, 5, 8, 16]))
    row = lambda: draw(st.lists(_val, min_size=T, max_size=T))
    return {
        "rewards": [row() for _ in range(E)],
        "values": [row() for _ in range(E)],
        "dones": [draw(_dones(T)) for _ in range(E)],
        "last_values": draw(st.lists(_val, min_size=E, max_size=E)),
        "gamma": draw(_unit),
        "lam": draw(_unit),
    }


def exhaustive_cases(ctx: Ctx, maxT: int, draws: int):
    """All 2^T done patterns for T <= maxT, each with `draws` parameter draws from a seeded PRNG
    (numpy Generator seeded from VERIF_SEED; enumeration, not Hypothesis)."""
    rng = np.random.default_rng(ctx.seed)
    for T in range(1, maxT + 1):
        for pat in itertools.product([False, True], repeat=T):
            for j in range(draws):
                if j == 0:
                    g, l = 0.99, 0.95
                elif j == 1:
                    g, l = 1.0, 1.0
                else:
                    g, l = float(rng.uniform()), float(rng.choice([0.0, 1.0, rng.uniform()]))
                yield {
                    "rewards": rng.integers(-9, 10, T).astype(float).tolist() if j % 2 == 0 else rng.normal(0, 10, T).tolist(),
                    "values": rng.normal(0, 5, T).tolist(),
                    "dones": list(pat),
                    "last_value": float(rng.normal(0, 5)),
                    "gamma": g,
                    "lam": l,
                }


def run(ctx: Ctx):
    ctx.rule = (
        "Generated (rewards, values, done pattern, bootstrap, gamma, lambda) -> RolloutBuffer.compute_returns_and_advantages "
        "(x64) vs float64 loop written from the statement; exhaustive over all 2^T done patterns for small T; metamorphic cut "
        "(perturb after a done), vmapped parallel streams, and buffers captured from PPO/A2C/REINFORCE.iteration on finite MDPs. "
        "Non-trivial: a done strictly inside the rollout and gamma*lambda>0; distinct by (T, done pattern, gamma, lambda)."
    )
    ctx.assumptions = ["float64 NumPy loop in vlib/refs.py is the definition of GAE", "jax_enable_x64=True"]
    maxT = ctx.n(9, 12)
    ctx.run_cases("exhaustive", exhaustive_cases(ctx, maxT, ctx.n(3, 4)), oracle_formula)
    ctx.notes["exhaustive_done_patterns_upto_T"] = maxT
    ctx.run_given("formula", formula_cases(), oracle_formula, ctx.n(1500, 30000))
    ctx.run_given("formula", formula_cases(big=True), oracle_formula, ctx.n(100, 2000))
    ctx.run_given("cut", cut_cases(), oracle_cut, ctx.n(600, 10000))
    ctx.run_given("streams", stream_cases(), oracle_streams, ctx.n(400, 8000))
    ctx.require_fraction("formula", "nontrivial", 0.3)
    ctx.require_fraction("cut", "effective", 0.5)
    from checks import e2e_c03 as c03_e2e

    c03_e2e.run(ctx)
