"""C08 — on-policy losses equal the published objectives (PPO clip, A2C, REINFORCE)."""

from __future__ import annotations

import functools

import jax

jax.config.update("jax_enable_x64", True)

import equinox as eqx
import numpy as np
import optax
from hypothesis import strategies as st
from jax import numpy as jnp
from jax import random as jr

from lerax.algorithm import A2C, PPO, REINFORCE
from lerax.buffer import RolloutBuffer
from lerax.policy import MLPActorCriticPolicy
from lerax.space import Box, Discrete, MultiBinary, MultiDiscrete
from vlib.runner import Ctx

OBS = 3
KINDS = {
    "discrete": Discrete(4),
    "box_scalar": Box(-1.0, 1.0),
    "box_vec": Box(-jnp.ones(2), jnp.ones(2)),
    "multibinary": MultiBinary(3),
    "multidiscrete": MultiDiscrete((2, 3)),
}


class _Env(eqx.Module):
    action_space: object
    observation_space: object


def _policy(kind, key, log_std=0.0):
    return MLPActorCriticPolicy(
        _Env(KINDS[kind], Box(-jnp.ones(OBS), jnp.ones(OBS))),
        feature_size=4, feature_width=8, feature_depth=1, value_width=8, value_depth=1, action_width=8, action_depth=1,
        log_std_init=log_std, key=jr.key(key),
    )


def _actions(kind, raw):
    """Members of the action space from a list of uniform(0,1) draws per row."""
    raw = np.asarray(raw, np.float64)
    if kind == "discrete":
        return jnp.asarray(np.minimum((raw[:, 0] * 4).astype(int), 3))
    if kind == "box_scalar":
        return jnp.asarray(raw[:, 0] * 2 - 1)
    if kind == "box_vec":
        return jnp.asarray(raw[:, :2] * 2 - 1)
    if kind == "multibinary":
        return jnp.asarray((raw[:, :3] > 0.5).astype(int))
    return jnp.asarray(np.stack([np.minimum((raw[:, 0] * 2).astype(int), 1), np.minimum((raw[:, 1] * 3).astype(int), 2)], axis=1))


@eqx.filter_jit
def _evaluate(policy, obs, actions):
    _, v, lp, ent = jax.vmap(policy.evaluate_action)(None, obs, actions)
    return v, lp, ent


def _buffer(case, policy):
    kind = case["kind"]
    N = len(case["adv"])
    obs = jnp.asarray(case["obs"], dtype=float)
    acts = _actions(kind, case["act_raw"])
    v, lp, ent = _evaluate(policy, obs, acts)
    old_lp = np.asarray(lp, np.float64) - np.asarray(case["dlogp"], np.float64)
    old_v = np.asarray(v, np.float64) - np.asarray(case["dv"], np.float64)
    buf = RolloutBuffer(
        observations=obs, actions=acts, rewards=jnp.zeros(N), dones=jnp.zeros(N, dtype=bool),
        log_probs=jnp.asarray(old_lp), values=jnp.asarray(old_v), states=None,
        returns=jnp.asarray(case["ret"], dtype=float), advantages=jnp.asarray(case["adv"], dtype=float),
    )
    return buf, np.asarray(v, np.float64), np.asarray(lp, np.float64), np.asarray(ent, np.float64), old_lp, old_v


# ----------------------------------------------------------------------------- references (NumPy, from the statement)
def _norm(A, on):
    A = np.asarray(A, np.float64)
    if not on:
        return A
    return (A - A.mean()) / (A.std() + np.finfo(np.float64).eps)


def ref_ppo(v, lp, ent, old_lp, old_v, adv, ret, normalize, eps, clip_v, vc, ec):
    A = _norm(adv, normalize)
    lr_ = lp - old_lp
    ratio = np.exp(lr_)
    pol = -np.mean(np.minimum(ratio * A, np.clip(ratio, 1 - eps, 1 + eps) * A))
    if clip_v:
        vcl = old_v + np.clip(v - old_v, -eps, eps)
        val = 0.5 * np.mean(np.maximum((v - ret) ** 2, (vcl - ret) ** 2))
    else:
        val = 0.5 * np.mean((v - ret) ** 2)
    entl = -np.mean(ent)
    kl = np.mean(ratio - 1 - lr_)
    return dict(total=pol + vc * val + ec * entl, policy=pol, value=val, entropy=entl, kl=kl, ratio=ratio, A=A)


@eqx.filter_jit
def _ppo_loss(policy, buf, normalize, eps, clip_v, vc, ec):
    return PPO.ppo_loss(policy, buf, normalize, eps, clip_v, vc, ec)


@eqx.filter_jit
def _a2c_loss(policy, buf, normalize, vc, ec):
    return A2C.a2c_loss(policy, buf, normalize, vc, ec)


@eqx.filter_jit
def _reinforce_loss(policy, buf, normalize, vc):
    return REINFORCE.reinforce_loss(policy, buf, normalize, vc)


@eqx.filter_jit
def _per_row_policy_grad_norm(policy, buf, eps):
    """Norm of the policy-loss gradient contributed by each row alone (1-row buffers)."""

    def one(row):
        b1 = jax.tree.map(lambda x: x[None], row)
        g = eqx.filter_grad(lambda p: PPO.ppo_loss(p, b1, False, eps, False, 0.0, 0.0)[0])(policy)
        return jnp.sqrt(sum(jnp.sum(x**2) for x in jax.tree.leaves(eqx.filter(g, eqx.is_inexact_array))))

    return jax.vmap(one)(buf)


def oracle_losses(ctx: Ctx, case):
    kind = case["kind"]
    policy = _policy(kind, case["pkey"], case.get("log_std", 0.0))
    buf, v, lp, ent, old_lp, old_v = _buffer(case, policy)
    adv, ret = np.asarray(case["adv"], np.float64), np.asarray(case["ret"], np.float64)
    tags = {"kind": kind}
    ctx.check(ent.shape == v.shape, "C08/entropy-of-factorised-action-not-a-scalar-per-sample", tags=tags, shape=list(ent.shape))
    if ent.shape != v.shape:
        ent = ent.reshape(len(v), -1).sum(1)
    eps, vc, ec = case["eps"], case["vc"], case["ec"]
    R = ref_ppo(v, lp, ent, old_lp, old_v, adv, ret, case["normalize"], eps, case["clip_v"], vc, ec)
    loss, stats = _ppo_loss(policy, buf, case["normalize"], jnp.asarray(eps), case["clip_v"], jnp.asarray(vc), jnp.asarray(ec))
    tol = dict(rtol=1e-8, atol=1e-9)
    ctx.close(stats.policy_loss, R["policy"], "C08/ppo/policy-loss-not-clipped-surrogate", tags=tags, **tol)
    if case["clip_v"]:
        vcl = old_v + np.clip(v - old_v, -eps, eps)
        mn = 0.5 * np.mean(np.minimum((v - ret) ** 2, (vcl - ret) ** 2))
        if not np.isclose(float(stats.value_loss), R["value"], **tol) and np.isclose(float(stats.value_loss), mn, **tol):
            ctx.fail("C08/ppo/value-clipping-takes-the-smaller-error", tags=tags, observed=float(stats.value_loss), expected=R["value"])
        else:
            ctx.close(stats.value_loss, R["value"], "C08/ppo/value-loss", tags=tags, **tol)
    else:
        ctx.close(stats.value_loss, R["value"], "C08/ppo/value-loss", tags=tags, **tol)
    ctx.close(stats.entropy_loss, R["entropy"], "C08/ppo/entropy-loss", tags=tags, **tol)
    ctx.close(stats.approx_kl, R["kl"], "C08/ppo/approx-kl", tags=tags, **tol)
    exp_total = float(stats.policy_loss) + vc * float(stats.value_loss) + ec * float(stats.entropy_loss)
    ctx.close(loss, exp_total, "C08/ppo/total-not-weighted-sum", tags=tags, **tol)
    ctx.close(stats.total_loss, loss, "C08/ppo/stats-total", tags=tags, **tol)
    # A2C / REINFORCE on the same buffer
    A = R["A"]
    a_loss, a_stats = _a2c_loss(policy, buf, case["normalize"], jnp.asarray(vc), jnp.asarray(ec))
    ctx.close(a_stats.policy_loss, -np.mean(lp * A), "C08/a2c/policy-loss", tags=tags, **tol)
    ctx.close(a_stats.value_loss, 0.5 * np.mean((v - ret) ** 2), "C08/a2c/value-loss", tags=tags, **tol)
    ctx.close(a_stats.entropy_loss, -np.mean(ent), "C08/a2c/entropy-loss", tags=tags, **tol)
    ctx.close(a_loss, -np.mean(lp * A) + vc * 0.5 * np.mean((v - ret) ** 2) + ec * -np.mean(ent), "C08/a2c/total", tags=tags, **tol)
    r_loss, r_stats = _reinforce_loss(policy, buf, case["normalize"], jnp.asarray(vc))
    ctx.close(r_stats.policy_loss, -np.mean(lp * A), "C08/reinforce/policy-loss", tags=tags, **tol)
    ctx.close(r_loss, -np.mean(lp * A) + vc * 0.5 * np.mean((v - ret) ** 2), "C08/reinforce/total", tags=tags, **tol)
    # gradient support (raw advantages, each row alone)
    ratio = R["ratio"]
    quad = {(bool(r > 1), bool(a > 0)) for r, a in zip(ratio, adv) if a != 0}
    if len(v) <= 8:
        gn = np.asarray(_per_row_policy_grad_norm(policy, buf, jnp.asarray(eps)))
        for i in range(len(v)):
            saturated = (adv[i] > 0 and ratio[i] > 1 + eps) or (adv[i] < 0 and ratio[i] < 1 - eps)
            margin = min(abs(ratio[i] - (1 + eps)), abs(ratio[i] - (1 - eps)))
            if margin < 1e-6 or adv[i] == 0:
                continue
            if saturated:
                ctx.check(gn[i] == 0.0, "C08/ppo/clipped-sample-contributes-policy-gradient", tags=tags, row=i, ratio=ratio[i], adv=adv[i], grad_norm=gn[i])
            else:
                ctx.check(gn[i] > 0.0, "C08/ppo/unclipped-sample-contributes-no-policy-gradient", tags=tags, row=i, ratio=ratio[i], adv=adv[i])
    both_orders = False
    if case["clip_v"]:
        vcl = old_v + np.clip(v - old_v, -eps, eps)
        d = (v - ret) ** 2 - (vcl - ret) ** 2
        both_orders = bool((d > 1e-12).any() and (d < -1e-12).any())
    ctx.count(
        nontrivial=len(quad) == 4 and (not case["clip_v"] or both_orders),
        classes=[kind, f"quadrants={len(quad)}"] + ["clip_v"] * case["clip_v"] + ["clip_v_both_orders"] * both_orders + ["normalize"] * case["normalize"],
        key=[kind, case["pkey"] % 128, len(v), case["normalize"], case["clip_v"], round(eps, 4), sorted(quad)],
    )


# ----------------------------------------------------------------------------- optimiser step
@functools.lru_cache(maxsize=None)
def _algo(name, mgn, lr, clip_v, normalize):
    if name == "PPO":
        return PPO(num_envs=1, num_steps=8, num_batches=1, num_epochs=1, max_grad_norm=mgn, learning_rate=lr, clip_value_loss=clip_v, normalize_advantages=normalize, entropy_loss_coefficient=0.01)
    if name == "A2C":
        return A2C(num_envs=1, num_steps=8, max_grad_norm=mgn, learning_rate=lr, normalize_advantages=normalize, entropy_loss_coefficient=0.01)
    return REINFORCE(num_envs=1, num_steps=8, max_grad_norm=mgn, learning_rate=lr, normalize_advantages=normalize)


def _jnp_loss(name, algo):
    """Differentiable float64 transcription of the statement (checked against NumPy in oracle_losses)."""

    def loss(policy, buf):
        _, v, lp, ent = jax.vmap(policy.evaluate_action)(None, buf.observations, buf.actions)
        A = buf.advantages
        if algo.normalize_advantages:
            A = (A - A.mean()) / (A.std() + jnp.finfo(A.dtype).eps)
        val = 0.5 * jnp.mean((v - buf.returns) ** 2)
        if name == "PPO":
            e = algo.clip_coefficient
            r = jnp.exp(lp - buf.log_probs)
            pol = -jnp.mean(jnp.minimum(r * A, jnp.clip(r, 1 - e, 1 + e) * A))
            if algo.clip_value_loss:
                vcl = buf.values + jnp.clip(v - buf.values, -e, e)
                val = 0.5 * jnp.mean(jnp.maximum((v - buf.returns) ** 2, (vcl - buf.returns) ** 2))
            return pol + algo.value_loss_coefficient * val + algo.entropy_loss_coefficient * -jnp.mean(ent)
        pol = -jnp.mean(lp * A)
        if name == "A2C":
            return pol + algo.value_loss_coefficient * val + algo.entropy_loss_coefficient * -jnp.mean(ent)
        return pol + algo.value_loss_coefficient * val

    return loss


@eqx.filter_jit
def _train_step(algo, name, policy, opt_state, buf, key):
    if name == "PPO":
        p, o, _ = algo.train_batch(policy, opt_state, buf)
        return p, o
    p, o, _ = algo.train(policy, opt_state, buf, key=key)
    return p, o


def oracle_optimiser(ctx: Ctx, case):
    name, kind = case["algo"], case["kind"]
    algo = _algo(name, case["mgn"], case["lr"], case["clip_v"], case["normalize"])
    policy = _policy(kind, case["pkey"])
    buf, *_ = _buffer(case, policy)
    params = eqx.filter(policy, eqx.is_inexact_array)
    tags = {"algo": name, "kind": kind}
    ref_opt = optax.chain(optax.clip_by_global_norm(case["mgn"]), optax.adam(case["lr"]))
    # Both optimisers first see one random gradient: the very first Adam step is lr*sign(g), blind to the scale of g (and so
    # to how it was clipped); with non-zero moments the update depends on the gradient itself.
    leaves, treedef = jax.tree.flatten(params)
    g0 = jax.tree.unflatten(treedef, [0.3 * jr.normal(k, x.shape, x.dtype) for k, x in zip(jr.split(jr.key(case["pkey"] + 17), len(leaves)), leaves)])
    s_l = algo.optimizer.update(g0, algo.optimizer.init(params), params)[1]
    s_r = ref_opt.update(g0, ref_opt.init(params), params)[1]
    loss = _jnp_loss(name, algo)
    base, moved, gnorm = policy, False, 0.0
    for step in (1, 2):  # the second step runs on the optimiser state the first one returned
        new_policy, s_l = _train_step(algo, name, base, s_l, buf, jr.key(step))
        g = eqx.filter_grad(loss)(base, buf)
        gnorm = max(gnorm, float(optax.global_norm(eqx.filter(g, eqx.is_inexact_array))))
        upd, s_r = ref_opt.update(g, s_r, eqx.filter(base, eqx.is_inexact_array))
        exp = eqx.apply_updates(base, upd)
        for a, b, c in zip(jax.tree.leaves(eqx.filter(new_policy, eqx.is_inexact_array)), jax.tree.leaves(eqx.filter(exp, eqx.is_inexact_array)), jax.tree.leaves(eqx.filter(base, eqx.is_inexact_array))):
            ctx.close(a, b, "C08/update-not-clip-by-global-norm-then-adam-on-the-objective", rtol=1e-6, atol=1e-10, tags=tags, step=step, grad_norm=gnorm, max_grad_norm=case["mgn"])
            moved |= not np.array_equal(np.asarray(a), np.asarray(c))
        base = new_policy
    ctx.check(moved, "C08/update-did-not-change-the-policy", tags=tags)
    clipped = gnorm > case["mgn"]
    ctx.count(nontrivial=True, classes=[name, kind, "norm_clipped" if clipped else "norm_unclipped"], key=[name, kind, case["pkey"] % 64, clipped, case["clip_v"], case["normalize"]])


def oracle_fresh_data(ctx: Ctx, case):
    """'On data collected by the current policy every ratio is 1 and the approximate KL is 0', through the real collector:
    Box actions sampled outside narrow bounds (library MLP policy) are the interesting rows."""
    from checks.c04_onpolicy_rollout import _build
    from vlib import onpolicy

    spec, env, policy, interp = _build(case)
    T = case["T"]
    algo = onpolicy.with_gamma(onpolicy.algo_template("PPO", 1, T), case["gamma"], case["lam"])
    s0, c0 = case["start"]
    ss = onpolicy.step_state(spec, s0, c0, c0)
    if case.get("policy_kind") == "mlp":
        ss = eqx.tree_at(lambda x: x.policy_state, ss, None, is_leaf=lambda x: x is None)
    _, buf = onpolicy.collect(algo, env, policy, ss, jr.key(case["key"]))
    for normalize in (False, True):
        loss, stats = _ppo_loss(policy, buf, normalize, 0.2, False, 0.5, 0.0)
        ctx.close(stats.approx_kl, 0.0, "C08/fresh-data-approx-kl-nonzero", atol=1e-9, tags={"algo": "PPO"})
        A = np.asarray(buf.advantages, np.float64)
        if normalize:
            if A.std() <= 1e-9 * max(1.0, float(np.abs(A).max())):
                continue  # constant advantages: (A - mean)/(0 + eps) is rounding noise amplified by 1/eps, no reference value
            A = (A - A.mean()) / (A.std() + np.finfo(np.float64).eps)
        ctx.close(stats.policy_loss, -A.mean(), "C08/fresh-data-surrogate-not-minus-mean-advantage", rtol=1e-9, atol=1e-9, tags={"algo": "PPO"})
    a = np.asarray(buf.actions, np.float64)
    outside = bool(interp.box and ((a < np.asarray(spec["act_low"])) | (a > np.asarray(spec["act_high"]))).any())
    ctx.count(nontrivial=outside or not interp.box, classes=[case["config"]] + ["sample_outside_bounds"] * outside, key=[case["config"], case["key"] % 256, outside])


PARTS = {"losses": oracle_losses, "optimiser": oracle_optimiser, "fresh_data": oracle_fresh_data}


@st.composite
def loss_cases(draw, kind, N):
    f = lambda lo, hi: st.floats(lo, hi, allow_nan=False).map(lambda x: round(x, 4))
    case = {
        "kind": kind,
        "pkey": draw(st.integers(0, 2**31 - 1)),
        "obs": [[draw(f(-1, 1)) for _ in range(OBS)] for _ in range(N)],
        "act_raw": [[draw(st.floats(0, 0.999, allow_nan=False)) for _ in range(3)] for _ in range(N)],
        "adv": [draw(st.one_of(f(-3, 3), st.sampled_from([1.0, -1.0, 0.5, -2.0]))) for _ in range(N)],
        "ret": [draw(f(-3, 3)) for _ in range(N)],
        "dlogp": [draw(st.one_of(f(-1.5, 1.5), st.sampled_from([0.0, 0.5, -0.5, 1.0, -1.0]))) for _ in range(N)],
        "dv": [draw(st.one_of(f(-1, 1), st.sampled_from([0.0, 0.3, -0.3]))) for _ in range(N)],
        "normalize": draw(st.booleans()),
        "clip_v": draw(st.booleans()),
        "eps": draw(st.one_of(st.sampled_from([0.2, 0.1, 0.3]), f(0.01, 0.5))),
        "vc": draw(st.sampled_from([0.5, 0.0, 1.0, 0.25])),
        "ec": draw(st.sampled_from([0.0, 0.01, 0.5])),
        "log_std": draw(st.sampled_from([0.0, -1.0, 0.5])),
    }
    if len(set(case["adv"])) < 2:
        case["adv"][0] = case["adv"][0] + 1.0
    return case


@st.composite
def opt_cases(draw, algo, kind):
    case = draw(loss_cases(kind, 8))
    case.update(algo=algo, mgn=draw(st.sampled_from([0.05, 100.0])), lr=draw(st.sampled_from([1e-2, 3e-4])))
    case.pop("log_std")
    return case


def run(ctx: Ctx):
    ctx.rule = (
        "Generated rollout buffers (advantages, returns, stored values/log-probs with log-ratios spread over +-1.5), real "
        "MLPActorCriticPolicy over Discrete/Box scalar/Box vector/MultiBinary/MultiDiscrete actions with drawn weights, all "
        "flag/coefficient settings: PPO.ppo_loss, A2C.a2c_loss, REINFORCE.reinforce_loss values and every stats field vs float64 "
        "NumPy formulas built from the policy's own per-sample (value, log-prob, entropy); per-row gradient support of the clipped "
        "surrogate; two chained optimiser steps (from a state with non-zero moments, the second on the state the first returned) vs "
        "clip_by_global_norm+adam applied by the harness to the gradient of a float64 jnp transcription; rollouts collected by the real collector with the library MLP policy (Box samples outside narrow bounds) give approx_kl 0 and a surrogate of -mean(A). Non-trivial: rows in all four (ratio side x advantage sign) quadrants and, with value clipping, both "
        "orderings of clipped/unclipped errors."
    )
    ctx.assumptions = ["the policy's evaluate_action outputs are the trusted per-sample quantities (C15/C16 check them)", "x64", "optax as the configured optimiser library"]
    kinds = list(KINDS)
    for kind in kinds:
        for N in ((7, 32) if ctx.quick else (2, 7, 32, 64)):
            ctx.run_given("losses", loss_cases(kind, N), oracle_losses, ctx.n(60, 1500))
    for algo, kind in (("PPO", "discrete"), ("PPO", "box_vec"), ("A2C", "multibinary"), ("REINFORCE", "box_scalar")) + ((("PPO", "multidiscrete"), ("A2C", "discrete")) if not ctx.quick else ()):
        ctx.run_given("optimiser", opt_cases(algo, kind), oracle_optimiser, ctx.n(16, 300), shrink=False)
    from checks.c04_onpolicy_rollout import rollout_cases

    for config in ("box-scalar", "disc-masked") if ctx.quick else ("box-scalar", "box-vec2", "disc-onehot", "disc-masked"):
        ctx.run_given("fresh_data", rollout_cases(config, 16, "some", algos=("PPO",), policy_kind="mlp"), oracle_fresh_data, ctx.n(30, 500), shrink=False)
    ctx.require_fraction("losses", "nontrivial", 0.2)
