"""C19 — reported performance numbers are faithful to what happened."""

from __future__ import annotations

import functools
import itertools

import jax

jax.config.update("jax_enable_x64", True)

import equinox as eqx
import numpy as np
from hypothesis import strategies as st
from hypothesis.stateful import RuleBasedStateMachine, initialize, rule
from jax import numpy as jnp
from jax import random as jr

from lerax.benchmark import average_reward
from lerax.callback import CallbackList
from lerax.callback.logging import LoggingCallback
from lerax.callback.logging.backend import AbstractLoggingBackend
from lerax.callback.logging.callback import LoggingCallbackStepState
from vlib import mdp, onpolicy
from vlib.doubles import RecordingBackend, StashCallback, TableQPolicy
from vlib.runner import Ctx


# ----------------------------------------------------------------------------- (a) accumulator machine
class Acc:
    """Model of one environment's episode statistics, from the statement."""

    def __init__(self):
        self.ret, self.len, self.prev_done = 0.0, 0, False
        self.avg_ret, self.avg_len, self.steps = 0.0, 0.0, 0

    def next(self, reward, done, alpha):
        if self.prev_done:
            self.ret, self.len = 0.0, 0
        self.ret += reward
        self.len += 1
        if done:
            self.avg_ret = alpha * self.ret + (1 - alpha) * self.avg_ret
            self.avg_len = alpha * self.len + (1 - alpha) * self.avg_len
        self.prev_done = done
        self.steps += 1


_next = eqx.filter_jit(lambda st_, r, d, a: st_.next(r, d, a))


class ExecAcc:
    def __init__(self, ctx: Ctx, alpha, E):
        self.ctx, self.alpha, self.E = ctx, alpha, E
        self.real = [LoggingCallbackStepState.initial() for _ in range(E)]
        self.model = [Acc() for _ in range(E)]
        self.episodes = [0] * E
        self.trunc_like = False

    def step(self, e, reward, done):
        ctx = self.ctx
        before = self.real[e]
        self.real[e] = _next(before, jnp.asarray(reward), jnp.asarray(done), jnp.asarray(self.alpha))
        m = self.model[e]
        m.next(reward, done, self.alpha)
        r = self.real[e]
        self.episodes[e] += bool(done)
        tags = None
        ctx.close(r.episode_return, m.ret, "C19/acc/episode-return-accumulation", e=e)
        ctx.check(int(r.episode_length) == m.len, "C19/acc/episode-length-accumulation", observed=int(r.episode_length), expected=m.len)
        ctx.close(r.average_return, m.avg_ret, "C19/acc/average-return" + ("-changed-without-episode-end" if not done else ""), e=e, done=done)
        ctx.close(r.average_length, m.avg_len, "C19/acc/average-length" + ("-changed-without-episode-end" if not done else ""), e=e, done=done)
        ctx.check(int(r.step) == m.steps, "C19/acc/step-counter", observed=int(r.step), expected=m.steps)
        ctx.check(bool(r.episode_done) == bool(done), "C19/acc/done-latch")
        # other environments untouched
        for o in range(self.E):
            if o != e:
                ctx.close(self.real[o].average_return, self.model[o].avg_ret, "C19/acc/other-environment-changed")


def oracle_acc(ctx: Ctx, case):
    ex = ExecAcc(ctx, case["alpha"], case["E"])
    for e, r, d in case["ops"]:
        ex.step(e, r, bool(d))
    ctx.count(nontrivial=max(ex.episodes) >= 2, classes=[f"E={case['E']}"] + ["multi_episode"] * (max(ex.episodes) >= 2), key=case)


class AccMachine(RuleBasedStateMachine):
    def __init__(self):
        super().__init__()
        self.ex, self.trace = None, None

    @initialize(alpha=st.one_of(st.sampled_from([0.0, 1.0, 0.9, 0.5]), st.floats(0, 1, allow_nan=False)), E=st.integers(1, 4))
    def setup(self, alpha, E):
        self.trace = {"alpha": alpha, "E": E, "ops": []}
        self.ctx.begin(self.part, self.trace)
        self.ex = ExecAcc(self.ctx, alpha, E)

    @rule(data=st.data(), n=st.integers(1, 6))
    def steps(self, data, n):
        for _ in range(n):
            e = data.draw(st.integers(0, self.ex.E - 1))
            r = data.draw(st.one_of(st.integers(-5, 5).map(float), st.floats(-100, 100, allow_nan=False)))
            d = data.draw(st.sampled_from([False, False, True]))
            self.trace["ops"].append([e, r, d])
            self.ctx.begin(self.part, self.trace)
            self.ex.step(e, r, d)

    def teardown(self):
        if self.ex is None:
            return
        self.ctx.begin(self.part, self.trace)
        multi = max(self.ex.episodes) >= 2
        self.ctx.count(nontrivial=multi, classes=["multi_episode"] * multi, key=self.trace)


# ----------------------------------------------------------------------------- (b) end-to-end logging
@functools.lru_cache(maxsize=None)
def _logger(alpha_key: str):
    be = RecordingBackend()
    return LoggingCallback(be, name="verif", alpha=0.5), be


def oracle_logged_onpolicy(ctx: Ctx, case):
    """PPO/A2C iteration() with LoggingCallback: scalars delivered to the backend must equal the
    per-env EMA of *environment* reward sums / lengths of finished episodes, in order, with the
    cumulative step count."""
    from checks.c04_onpolicy_rollout import _build

    spec, env, policy, interp = _build(case)
    T, E = case["T"], case["E"]
    algo = onpolicy.with_gamma(onpolicy.algo_template(case["algo"], E, T), case["gamma"], case["lam"] if case["algo"] != "REINFORCE" else None)
    logger, be = _logger("x")
    logger = eqx.tree_at(lambda l: l.alpha, logger, jnp.asarray(case["alpha"]))
    be.records.clear()
    cb = CallbackList([logger, StashCallback(("rollout_buffer",))])
    state = onpolicy.reset_algo(algo, env, policy, jr.key(case["key"]), cb)
    model = [Acc() for _ in range(E)]
    episodes, trunc_only_end = 0, False
    tags = {"algo": case["algo"]}
    for k in range(1, case["iters"] + 1):
        prev = state
        state = onpolicy.iterate(algo, state, jr.key(case["key"] + k), cb)
        jax.effects_barrier()
        buf = state.callback_state.states[1].data["rollout_buffer"]
        for e in range(E):
            b = buf if E == 1 else jax.tree.map(lambda x: x[e], buf)
            ss0 = prev.step_state if E == 1 else jax.tree.map(lambda x: x[e], prev.step_state)
            ss1 = state.step_state if E == 1 else jax.tree.map(lambda x: x[e], state.step_state)
            s0, c0, acc0 = mdp.read_state(spec, ss0.env_state)
            # environment rewards / episode ends of this env's stream, from the tables
            s, c, acc = s0, c0, acc0
            acts = np.asarray(b.actions)
            for t in range(T):
                ca = interp.clip(acts[t])
                s2, c2, r, term, trunc = interp.step(s, c, ca)
                done = term or trunc
                model[e].next(r, done, case["alpha"])
                if done:
                    episodes += 1
                    trunc_only_end |= trunc and not term
                    if t + 1 < T:
                        s, _ = interp.decode_obs(onpolicy.row(b.observations, t + 1))
                    else:
                        s, _, _ = mdp.read_state(spec, ss1.env_state)
                    c, acc = 0, 0.0
                else:
                    s, c, acc = s2, c2, (float(np.asarray(ca).reshape(-1)[0]) if interp.box else 0.0)
        recs = [r for r in be.records if r[0] == "scalars"]
        ctx.check(len(recs) == k, "C19/log/one-record-per-iteration", tags=tags, observed=len(recs), expected=k)
        _, scalars, step = recs[-1]
        ctx.check(step == k * E * T, "C19/log/step-not-cumulative-env-steps", tags=tags, observed=step, expected=k * E * T)
        exp_ret = float(np.mean([m.avg_ret for m in model]))
        exp_len = float(np.mean([m.avg_len for m in model]))
        ctx.close(scalars["episode/return"], exp_ret, "C19/log/episode-return-not-sum-of-environment-rewards", rtol=1e-9, atol=1e-9, tags=tags, iteration=k)
        ctx.close(scalars["episode/length"], exp_len, "C19/log/episode-length", rtol=1e-9, atol=1e-9, tags=tags, iteration=k)
    steps = [r[2] for r in be.records if r[0] == "scalars"]
    ctx.check(steps == sorted(steps), "C19/log/records-out-of-order", tags=tags, steps=steps)
    ctx.count(nontrivial=episodes >= 2 and trunc_only_end, classes=[case["algo"], f"E={E}"] + ["trunc_only_end"] * trunc_only_end, key=[case["algo"], E, case["key"] % 256, episodes])


def oracle_logged_offpolicy(ctx: Ctx, case):
    from checks import c05_offpolicy_collect as c05

    combo = case["combo"]
    name, nS, nA, shape, B, L, E, S = c05.COMBOS[combo]
    spec = case["spec"]
    env = mdp.make_env(spec)
    policy = TableQPolicy(env, spec, case["q"], case["epsilon"])
    algo = eqx.tree_at(lambda a: a.gamma, c05._algo(combo), jnp.asarray(0.9))
    logger, be = _logger("x")
    logger = eqx.tree_at(lambda l: l.alpha, logger, jnp.asarray(case["alpha"]))
    be.records.clear()
    cb = CallbackList([logger])
    cap = B // E if E > 1 else B
    state = c05._reset(algo, env, policy, jr.key(case["key"]), cb)
    model = [Acc() for _ in range(E)]
    seen = [0] * E
    episodes = 0
    tags = {"algo": name}

    def absorb(buf, upto):
        nonlocal episodes
        for e in range(E):
            rew = np.asarray(buf.rewards) if E == 1 else np.asarray(buf.rewards)[e]
            don = np.asarray(buf.dones) if E == 1 else np.asarray(buf.dones)[e]
            for n in range(seen[e], upto):
                model[e].next(float(rew[n % cap]), bool(don[n % cap]), case["alpha"])
                episodes += bool(don[n % cap])
            seen[e] = upto

    absorb(state.step_state.buffer, L)
    for k in range(1, case["iters"] + 1):
        state = c05._iterate(algo, state, jr.key(case["key"] + k), cb)
        jax.effects_barrier()
        absorb(state.step_state.buffer, L + k * S)
        recs = [r for r in be.records if r[0] == "scalars"]
        ctx.check(len(recs) == k, "C19/log/one-record-per-iteration", tags=tags, observed=len(recs), expected=k)
        _, scalars, step = recs[-1]
        ctx.check(step == E * (L + k * S), "C19/log/step-not-cumulative-env-steps", tags=tags, observed=step, expected=E * (L + k * S))
        ctx.close(scalars["episode/return"], float(np.mean([m.avg_ret for m in model])), "C19/log/episode-return-not-sum-of-environment-rewards", rtol=1e-9, atol=1e-9, tags=tags, iteration=k)
        ctx.close(scalars["episode/length"], float(np.mean([m.avg_len for m in model])), "C19/log/episode-length", rtol=1e-9, atol=1e-9, tags=tags, iteration=k)
    ctx.count(nontrivial=episodes >= 2, classes=[combo], key=[combo, case["key"] % 256, episodes])


# ----------------------------------------------------------------------------- (c) evaluation helper
@eqx.filter_jit
def _avg(env, policy, key, num_episodes, max_steps, deterministic):
    return average_reward(env, policy, num_episodes=num_episodes, max_steps=max_steps, deterministic=deterministic, key=key)


def _episode_return(interp, pol_action, s0, cap):
    """Undiscounted return of the deterministic episode from s0: up to the first terminal or
    truncated state or the step cap."""
    s, c, g, n = s0, 0, 0.0, 0
    while cap is None or n < cap:
        a = pol_action(s, n)
        s2, c2, r, term, trunc = interp.step(s, c, a)
        g += r
        n += 1
        if term or trunc:
            return g, n, True
        s, c = s2, c2
        if n > 10_000:
            raise RuntimeError("non-terminating episode generated")
    return g, n, False


def _bounds(interp, s0, cap):
    """min/max undiscounted return over all action sequences (DP over (state, count, steps left))."""

    @functools.lru_cache(maxsize=None)
    def rec(s, c, left):
        if left == 0:
            return (0.0, 0.0)
        lo, hi = np.inf, -np.inf
        for a in range(interp.nA):
            if interp.M is not None and not interp.M[s][a]:
                continue
            s2, c2, r, term, trunc = interp.step(s, c, a)
            if term or trunc:
                l2, h2 = 0.0, 0.0
            else:
                l2, h2 = rec(s2, c2, left - 1)
            lo, hi = min(lo, r + l2), max(hi, r + h2)
        return (lo, hi)

    return rec(s0, 0, cap)


def oracle_average_reward(ctx: Ctx, case):
    spec = case["spec"]
    env = mdp.make_env(spec)
    interp = mdp.Interp(spec)
    policy = onpolicy.table_policy(env, spec, case["policy"])
    n, cap, det = case["num_episodes"], case["max_steps"], case["deterministic"]
    stateful = case.get("qpolicy") is not None
    if stateful:
        # a policy whose greedy action depends on its own step counter (Q[s] + w*n): the evaluated episode is only right if
        # the helper threads the policy state through the episode and restarts it for every episode
        policy = TableQPolicy(env, spec, case["qpolicy"]["q"], 0.0, w=case["qpolicy"]["w"])
    got = float(_avg(env, policy, jr.key(case["key"]), n, cap, det))
    starts = [i for i in range(spec["nS"]) if spec["I"][i]]
    tags = {"mode": "deterministic" if det else "stochastic", "cap": "none" if cap is None else "scan"}
    if det:
        logits = np.asarray(case["policy"]["logits"], np.float64)
        if stateful:
            q, w = np.asarray(case["qpolicy"]["q"], np.float64), np.asarray(case["qpolicy"]["w"], np.float64)
            act = lambda s, n_: int(np.argmax(q[s] + w * n_))
        else:
            act = lambda s, n_: int(np.argmax(logits[s]))
        G = {}
        cut, full = False, False
        for s0 in starts:
            g, steps, ended = _episode_return(interp, act, s0, cap)
            G[s0] = g
            cut |= not ended
            full |= ended
        # n * average must decompose into exactly n terms from {G(s0)}
        target = n * got
        vals = sorted(set(G.values()))
        ok = any(abs(sum(combo) - target) <= 1e-8 * (1 + abs(target)) for combo in itertools.combinations_with_replacement(vals, n))
        ctx.check(ok, "C19/eval/not-the-mean-of-n-episode-returns", tags=tags, observed=got, episode_returns=G, num_episodes=n, max_steps=cap)
        trunc_end = spec["time_limit"] is not None
        ctx.count(nontrivial=n >= 2 and len(vals) >= 2, classes=["hit_cap"] * cut + ["ended"] * full + [tags["cap"]] + [f"starts={len(starts)}"] + ["stateful_policy"] * stateful, key=[case["key"] % 512, n, cap, sorted(G.items())])
    else:
        capn = cap if cap is not None else 64
        los, his = zip(*[_bounds(interp, s0, capn) for s0 in starts])
        ctx.check(min(los) - 1e-9 <= got <= max(his) + 1e-9, "C19/eval/outside-achievable-return-range", tags=tags, observed=got, lo=min(los), hi=max(his))
        ctx.count(nontrivial=n >= 2, classes=["stochastic", tags["cap"]], key=[case["key"] % 512, n, cap])


def oracle_average_reward_spread(ctx: Ctx, case):
    """Independent episodes: with one episode per call, over 40 keys every start state occurs, and
    each single-episode result equals G(s0) of some start state."""
    spec = case["spec"]
    env = mdp.make_env(spec)
    interp = mdp.Interp(spec)
    policy = onpolicy.table_policy(env, spec, case["policy"])
    logits = np.asarray(case["policy"]["logits"], np.float64)
    starts = [i for i in range(spec["nS"]) if spec["I"][i]]
    G = {s0: _episode_return(interp, lambda s, n_: int(np.argmax(logits[s])), s0, case["max_steps"])[0] for s0 in starts}
    vals = sorted(set(G.values()))
    n = 4
    seen = set()
    mixed_calls = unique_calls = 0
    for j in range(24):
        got = float(_avg(env, policy, jr.key(case["key"] + j), n, case["max_steps"], True))
        hit = [c for c in itertools.combinations_with_replacement(vals, n) if abs(sum(c) - n * got) <= 1e-8 * (1 + abs(n * got))]
        ctx.check(bool(hit), "C19/eval/not-the-mean-of-n-episode-returns", tags={"mode": "deterministic", "cap": "scan"}, observed=got, episode_returns=G)
        if len(hit) == 1:
            seen |= set(hit[0])
            mixed_calls += len(set(hit[0])) > 1
            unique_calls += 1
    pmin = min(sum(1 for s0 in starts if G[s0] == v) for v in vals) / len(starts)
    if len(vals) >= 2 and pmin >= 0.25 and unique_calls >= 20:  # miss probability <= 4*(3/4)^80 ~ 4e-10
        # 96 independent uniform draws over <= 4 start states miss a given value with prob <= (3/4)^96 ~ 1e-12
        ctx.check(seen == set(vals), "C19/eval/episodes-not-independent-draws", seen=sorted(seen), possible=vals)
        # within one call the 4 episodes are independent draws: over >= 12 uniquely decomposable calls,
        # all of them consisting of 4 identical episodes is (practically) impossible
        pmax = max(sum(1 for s0 in starts if G[s0] == v) for v in vals) / len(starts)
        if unique_calls >= 12 and pmax <= 0.5:  # P(4 equal) <= 1/8 per call -> <= 1.5e-11 over 12 calls
            ctx.check(mixed_calls > 0, "C19/eval/episodes-of-one-call-are-copies", unique_calls=unique_calls, possible=vals)
    ctx.count(nontrivial=len(vals) >= 2, classes=[f"distinct_returns={len(vals)}"], key=[case["key"] % 512, sorted(G.items())])


PARTS = {
    "acc": oracle_acc,
    "logged_onpolicy": oracle_logged_onpolicy,
    "logged_offpolicy": oracle_logged_offpolicy,
    "average_reward": oracle_average_reward,
    "average_reward_spread": oracle_average_reward_spread,
}


# ----------------------------------------------------------------------------- strategies
@st.composite
def logged_onpolicy_cases(draw, config, algo, E, T):
    from checks.c04_onpolicy_rollout import rollout_cases

    case = draw(rollout_cases(config, T, "some", algos=(algo,), E=E))
    case["alpha"] = draw(st.sampled_from([0.9, 0.5, 1.0, 0.1]))
    case["iters"] = draw(st.integers(1, 3))
    return case


@st.composite
def logged_offpolicy_cases(draw, combo):
    from checks.c05_offpolicy_collect import cases

    case = draw(cases(combo, "some"))
    case["alpha"] = draw(st.sampled_from([0.9, 0.5, 1.0, 0.1]))
    return case


@st.composite
def eval_cases(draw, sizes, tl, det, cap_mode):
    from checks.c04_onpolicy_rollout import policy_tables

    spec = draw(mdp.mdp_specs(fixed_sizes=sizes, masked=False, fixed_time_limit=tl, time_limits=(None, 2, 3, 5, 8)))
    nS = sizes[0]
    # an episode "ends at its first terminal or truncated state": keep start states out of the
    # flagged sets so that the meaning of a zero-length episode never arises
    for i in range(nS):
        if spec["I"][i] and (spec["T"][i] or spec["U"][i]):
            spec["T"][i] = False
            spec["U"][i] = False
    if cap_mode == "none":
        # rollout_while has no cap: only generate MDPs in which every episode ends (time limit present)
        assert spec["time_limit"] is not None
        cap = None
    else:
        cap = draw(st.sampled_from([1, 2, 3, 5, 8, 20]))
    qpolicy = None
    if det and spec.get("M") is None and draw(st.booleans()):
        cell = st.integers(-8, 8).map(lambda x: x / 4)  # exact in float32, ties broken by the first index on both sides
        qpolicy = {"q": [[draw(cell) for _ in range(spec["nA"])] for _ in range(nS)], "w": [draw(cell) for _ in range(spec["nA"])]}
    return {
        "spec": spec,
        "policy": policy_tables(draw, spec),
        "qpolicy": qpolicy,
        "num_episodes": draw(st.integers(1, 6)),
        "max_steps": cap,
        "deterministic": det,
        "key": draw(st.integers(0, 2**31 - 1000)),
    }


def run(ctx: Ctx):
    ctx.rule = (
        "(a) rule-based machine over LoggingCallbackStepState.next histories (rewards, done patterns, alpha, 1-4 envs) vs an "
        "accumulator model written from the statement; (b) PPO/A2C/REINFORCE/DQN reset()+iteration() on generated finite MDPs with "
        "LoggingCallback(recording backend): delivered scalars vs per-env EMAs of ENVIRONMENT reward sums/lengths recomputed from "
        "the tables, record order and cumulative step; (c) average_reward on generated MDPs: n*result must decompose into n "
        "interpreter-computed episode returns (deterministic policies; while/scan variants, step caps), range bounds by DP for "
        "stochastic policies. Non-trivial: >=2 finished episodes (one ended by truncation only for (b)) / >=2 distinct start returns."
    )
    ctx.assumptions = ["vlib/mdp.py Interp is the reference semantics", "EMA convention: new = alpha*episode_value + (1-alpha)*old (docstring of LoggingCallback)", "x64"]
    ctx.run_machine("acc", AccMachine, ctx.n(150, 3000), ctx.n(12, 40))
    plan = [("disc-onehot", "PPO", 3, 8), ("box-scalar", "A2C", 1, 5), ("disc-masked", "REINFORCE", 3, 8)]
    if not ctx.quick:
        plan += [("disc-onehot", "A2C", 3, 16), ("box-vec2", "PPO", 1, 16)]
    for config, algo, E, T in plan:
        ctx.run_given("logged_onpolicy", logged_onpolicy_cases(config, algo, E, T), oracle_logged_onpolicy, ctx.n(25, 500), shrink=False)
    for combo in ("dqn-1env-nowrap", "dqn-2env-ls0"):
        ctx.run_given("logged_offpolicy", logged_offpolicy_cases(combo), oracle_logged_offpolicy, ctx.n(25, 400), shrink=False)
    for sizes, tl, det, cap_mode in (((4, 3), "some", True, "scan"), ((4, 3), "none", True, "scan"), ((4, 3), "some", True, "none"), ((4, 3), "some", False, "scan")):
        ctx.run_given("average_reward", eval_cases(sizes, tl, det, cap_mode), oracle_average_reward, ctx.n(120, 3000))
    ctx.run_given("average_reward_spread", eval_cases((4, 3), "some", True, "scan"), oracle_average_reward_spread, ctx.n(15, 300), shrink=False)
    ctx.require_fraction("acc", "multi_episode", 0.3)
    ctx.require_fraction("average_reward", "hit_cap", 0.1)
    ctx.require_fraction("average_reward", "ended", 0.3)
