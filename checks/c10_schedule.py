"""C10 — training schedule: step budget, iteration counter, target-network updates."""

from __future__ import annotations

import functools

import jax

jax.config.update("jax_enable_x64", True)

import equinox as eqx
import numpy as np
from hypothesis import strategies as st
from jax import numpy as jnp
from jax import random as jr

from checks.c01_step_reset import _blank_spec
from lerax.algorithm import A2C, DQN, PPO, SAC
from lerax.callback import AbstractCallback, AbstractCallbackState, AbstractCallbackStepState
from lerax.policy import MLPSACPolicy
from vlib import mdp
from vlib.doubles import StepCount, TableACPolicy, TableQPolicy
from vlib.algos import transplant
from vlib.runner import Ctx


class IterCount(AbstractCallbackState):
    n: jnp.ndarray


class CountCallback(AbstractCallback):
    """Counts on_step calls per environment (step state) and on_iteration calls (state), and
    ships (iteration_count, total steps) to a host list through an ordered debug callback, so
    that what happens inside learn()'s scan is observable."""

    sink: list = eqx.field(static=True)

    def __init__(self):
        self.sink = []

    def __hash__(self):
        return id(self)

    def __eq__(self, other):
        return self is other

    def reset(self, ctx, *, key):
        return IterCount(jnp.asarray(0, dtype=int))

    def step_reset(self, ctx, *, key):
        return StepCount(jnp.asarray(0, dtype=int))

    def on_step(self, ctx, *, key):
        return StepCount(ctx.state.n + 1)

    def on_iteration(self, ctx, *, key):
        jax.debug.callback(lambda it, n, steps: self.sink.append((int(it), int(n), int(steps))), ctx.iteration_count, ctx.state.n + 1, jnp.sum(ctx.step_state.n), ordered=True)
        return IterCount(ctx.state.n + 1)

    def on_training_start(self, ctx, *, key):
        return ctx.state

    def on_training_end(self, ctx, *, key):
        return ctx.state

    def continue_training(self, ctx, *, key):
        return jnp.array(True)


_CB = None


def the_callback():
    """One callback object for the whole process (it is a static jit argument compared by identity)."""
    global _CB
    if _CB is None:
        _CB = CountCallback()
    _CB.sink.clear()
    return _CB


@eqx.filter_jit
def _reset(algo, env, policy, key, cb):
    return algo.reset(env, policy, key=key, callback=cb)


@eqx.filter_jit
def _iterate(algo, state, key, cb):
    return algo.iteration(state, key=key, callback=cb)


def leaves(x):
    return [np.asarray(l) for l in jax.tree.leaves(eqx.filter(x, eqx.is_inexact_array))]


def same(a, b):
    return all(np.array_equal(x, y) for x, y in zip(leaves(a), leaves(b)))


def _mdp_env(case, box):
    spec = dict(_blank_spec("box" if box else "disc"))
    spec.update(P=case["P"], T=case["T"], I=[True] * spec["nS"], M=None)
    rng = np.random.default_rng(case["key"])
    spec["R"] = rng.integers(-3, 4, (spec["nS"], spec["nA"], spec["nS"])).astype(float).tolist()
    spec["time_limit"] = case["time_limit"]
    return mdp.make_env(spec), spec


# ----------------------------------------------------------------------------- DQN histories
@functools.lru_cache(maxsize=None)
def _dqn(E, S, I):
    return DQN(buffer_size=32, learning_starts=2, num_envs=E, num_steps=S, batch_size=2, target_update_interval=I, learning_rate=5e-2)


def oracle_dqn(ctx: Ctx, case):
    E, S, I = case["E"], case["S"], case["interval"]
    env, spec = _mdp_env(case, box=False)
    policy = TableQPolicy(env, spec, case["q"], 0.3)
    algo = _dqn(E, S, I)
    cb = the_callback()
    state = _reset(algo, env, policy, jr.key(case["key"]), cb)
    tags = {"algo": "DQN"}
    ctx.check(int(state.iteration_count) == 0, "C10/iteration-count-initial", tags=tags)
    snapshot = state.policy
    ctx.check(same(state.target_policy, snapshot), "C10/dqn/target-not-online-at-start", tags=tags)
    updates, between = 0, 0
    changed_any = False
    for k in range(1, case["iters"] + 1):
        prev = state
        state = _iterate(algo, state, jr.key(case["key"] + k), cb)
        ctx.check(int(state.iteration_count) == k, "C10/iteration-count-not-advanced-by-one", tags=tags, observed=int(state.iteration_count), expected=k)
        steps = np.asarray(state.step_state.callback_state.n).reshape(-1)
        ctx.check(steps.shape == (E,) and bool(np.all(steps == 2 + k * S)), "C10/iteration-does-not-consume-num-envs-times-num-steps", tags=tags, observed=steps.tolist(), expected=2 + k * S)
        changed_any |= not same(state.policy, prev.policy)
        if k % I == 0:
            snapshot = state.policy
            updates += 1
        else:
            between += 1
        if not same(state.target_policy, snapshot):
            if same(state.target_policy, state.policy):
                ctx.fail("C10/dqn/target-copied-on-a-non-multiple-iteration", tags=tags, k=k, interval=I)
            elif same(state.target_policy, prev.target_policy):
                ctx.fail("C10/dqn/target-not-updated-on-a-multiple-iteration", tags=tags, k=k, interval=I)
            else:
                ctx.fail("C10/dqn/target-is-neither-snapshot-nor-online", tags=tags, k=k, interval=I)
    jax.effects_barrier()
    ctx.check([s[0] for s in cb.sink] == list(range(1, case["iters"] + 1)), "C10/on-iteration-calls", tags=tags, observed=cb.sink)
    ctx.check(changed_any, "C10/harness/online-network-never-changed", tags=tags)
    ctx.count(nontrivial=updates >= 2 and between >= 1, classes=[f"I={I}", f"E={E}"] + ["two_updates"] * (updates >= 2), key=[E, S, I, case["iters"], case["key"] % 64])


# ----------------------------------------------------------------------------- SAC histories
def _sac_kw(E, S, pf, autotune):
    return dict(buffer_size=32, learning_starts=2, num_envs=E, num_steps=S, batch_size=2, policy_frequency=pf, autotune=autotune, q_width_size=8, q_depth=1, policy_lr=1e-2, q_lr=1e-2, tau=0.5)


@functools.lru_cache(maxsize=None)
def _sac(E, S, pf, autotune):
    return SAC(**_sac_kw(E, S, pf, autotune))


def oracle_sac(ctx: Ctx, case):
    E, S, pf, autotune, tau = case["E"], case["S"], case["pf"], case["autotune"], case["tau"]
    env, spec = _mdp_env(case, box=True)
    policy = MLPSACPolicy(env, feature_size=4, width_size=8, depth=1, key=jr.key(case["key"] + 999))
    algo = transplant(_sac(E, S, pf, autotune), _sac_kw(E, S, pf, autotune), tau=float(tau))
    cb = the_callback()
    state = _reset(algo, env, policy, jr.key(case["key"]), cb)
    tags = {"algo": "SAC"}
    ctx.check(same(state.qf1_target, state.qf1) and same(state.qf2_target, state.qf2), "C10/sac/targets-not-critics-at-start", tags=tags)
    actor_updates = actor_skips = 0
    for k in range(1, case["iters"] + 1):
        prev = state
        state = _iterate(algo, state, jr.key(case["key"] + k), cb)
        ctx.check(int(state.iteration_count) == k, "C10/iteration-count-not-advanced-by-one", tags=tags, observed=int(state.iteration_count), expected=k)
        steps = np.asarray(state.step_state.callback_state.n).reshape(-1)
        ctx.check(bool(np.all(steps == 2 + k * S)), "C10/iteration-does-not-consume-num-envs-times-num-steps", tags=tags, observed=steps.tolist(), expected=2 + k * S)
        for nm in ("qf1", "qf2"):
            new_q, old_t, new_t = leaves(getattr(state, nm)), leaves(getattr(prev, nm + "_target")), leaves(getattr(state, nm + "_target"))
            for a, b, c in zip(new_q, old_t, new_t):
                exp = tau * a + (1 - tau) * b
                if not np.allclose(c, exp, rtol=1e-12, atol=1e-14):
                    twice = tau * a + (1 - tau) * exp
                    swapped = (1 - tau) * a + tau * b
                    if np.allclose(c, twice, rtol=1e-12, atol=1e-14):
                        ctx.fail("C10/sac/soft-update-applied-twice", tags=tags, k=k)
                    elif np.allclose(c, swapped, rtol=1e-12, atol=1e-14):
                        ctx.fail("C10/sac/soft-update-weights-swapped", tags=tags, k=k)
                    elif np.allclose(c, tau * leaves(getattr(prev, nm))[0] + (1 - tau) * b, rtol=1e-12, atol=1e-14) and False:
                        pass
                    else:
                        ctx.fail("C10/sac/target-not-polyak-average-of-new-critic", tags=tags, k=k, net=nm)
        count_before = k - 1
        should = count_before % pf == 0
        actor_same = same(state.policy, prev.policy)
        alpha_same = bool(np.array_equal(np.asarray(state.log_alpha), np.asarray(prev.log_alpha)))
        if should:
            actor_updates += 1
            ctx.check(not actor_same, "C10/sac/actor-not-updated-on-a-policy-frequency-iteration", tags=tags, k=k, pf=pf)
            if autotune:
                ctx.check(not alpha_same, "C10/sac/temperature-not-updated-on-a-policy-frequency-iteration", tags=tags, k=k, pf=pf)
        else:
            actor_skips += 1
            ctx.check(actor_same, "C10/sac/actor-updated-off-schedule", tags=tags, k=k, pf=pf)
            ctx.check(alpha_same, "C10/sac/temperature-updated-off-schedule", tags=tags, k=k, pf=pf)
        if not autotune:
            ctx.check(alpha_same, "C10/sac/temperature-changed-without-autotune", tags=tags, k=k)
    ctx.count(nontrivial=actor_updates >= 2 and actor_skips >= 1, classes=[f"pf={pf}", f"E={E}"] + ["autotune"] * autotune, key=[E, S, pf, autotune, round(tau, 4), case["iters"], case["key"] % 64])


# ----------------------------------------------------------------------------- learn(): step budget
@functools.lru_cache(maxsize=None)
def _learn_algo(name, E, S):
    if name == "PPO":
        return PPO(num_envs=E, num_steps=S, num_batches=1, num_epochs=1)
    if name == "A2C":
        return A2C(num_envs=E, num_steps=S)
    if name == "DQN":
        return DQN(buffer_size=32, learning_starts=3, num_envs=E, num_steps=S, batch_size=2, target_update_interval=2)
    return SAC(buffer_size=32, learning_starts=3, num_envs=E, num_steps=S, batch_size=2, q_width_size=8, q_depth=1)


def oracle_learn(ctx: Ctx, case):
    name, E, S, total = case["algo"], case["E"], case["S"], case["total"]
    box = name == "SAC"
    env, spec = _mdp_env(case, box=box)
    if name in ("PPO", "A2C"):
        policy = TableACPolicy(env, spec, logits=np.zeros((spec["nS"], spec["nA"])), vtab=np.zeros(spec["nS"]))
    elif name == "DQN":
        policy = TableQPolicy(env, spec, np.zeros((spec["nS"], spec["nA"])), 0.3)
    else:
        policy = MLPSACPolicy(env, feature_size=4, width_size=8, depth=1, key=jr.key(3))
    algo = _learn_algo(name, E, S)
    cb = the_callback()
    out = algo.learn(env, policy, total, key=jr.key(case["key"]), callback=cb)
    jax.effects_barrier()
    tags = {"algo": name}
    n_it = total // (E * S)
    warm = 3 * E if name in ("DQN", "SAC") else 0
    ctx.check(len(cb.sink) == n_it, "C10/learn/number-of-iterations", tags=tags, observed=len(cb.sink), expected=n_it, total=total, per_iteration=E * S)
    ctx.check([s[0] for s in cb.sink] == list(range(1, len(cb.sink) + 1)), "C10/learn/iteration-counter-sequence", tags=tags, observed=[s[0] for s in cb.sink])
    ctx.check([s[2] for s in cb.sink] == [warm + k * E * S for k in range(1, len(cb.sink) + 1)], "C10/learn/steps-per-iteration", tags=tags, observed=[s[2] for s in cb.sink], per_iteration=E * S, warmup=warm)
    ctx.check(type(out) is type(policy), "C10/learn/returns-policy", tags=tags)
    ctx.count(nontrivial=total % (E * S) != 0, classes=[name] + ["non_divisible"] * (total % (E * S) != 0), key=[name, E, S, total])


PARTS = {"dqn": oracle_dqn, "sac": oracle_sac, "learn": oracle_learn}


@st.composite
def hist_cases(draw, kind, E, S, extra):
    nS, nA = 4, 3
    case = {
        "E": E,
        "S": S,
        "P": [[draw(st.integers(0, nS - 1)) for _ in range(nA)] for _ in range(nS)],
        "T": [draw(st.integers(0, 3)) == 0 for _ in range(nS)],
        "time_limit": draw(st.sampled_from([None, 3, 5])),
        "key": draw(st.integers(0, 2**31 - 2000)),
        "iters": draw(st.integers(3, 12)),
    }
    case.update(extra)
    if kind == "dqn":
        case["q"] = [[draw(st.floats(-2, 2, allow_nan=False).map(lambda x: round(x, 2))) for _ in range(nA)] for _ in range(nS)]
    else:
        case["tau"] = draw(st.one_of(st.sampled_from([0.005, 0.5, 1.0]), st.floats(0.001, 1.0, allow_nan=False)))
    return case


def run(ctx: Ctx):
    ctx.rule = (
        "Iteration histories (3-12 calls of the jitted iteration() from reset(), drawn keys, MDP tables, time limits) for DQN "
        "(target_update_interval 1..5) and SAC (tau, policy_frequency 1..4, autotune on/off) on finite MDPs with a counting "
        "callback: iteration counter, env steps consumed per iteration, target network == online snapshot at the latest multiple "
        "of the interval (bit-identical) / Polyak average exactly once (1e-12, x64), actor and temperature gating in both "
        "directions; learn() with divisible and non-divisible total_timesteps for PPO/A2C/DQN/SAC: number of iterations, counter "
        "sequence and cumulative steps shipped by an ordered debug callback. Non-trivial: history crossing >=2 target updates "
        "with a non-update iteration between / >=2 actor updates and a skipped one / non-divisible totals."
    )
    ctx.assumptions = ["x64", "generic drawn weights give a non-zero actor gradient (a zero gradient has probability zero)"]
    # (num_envs, num_steps, interval): include pairs with gcd(num_envs, interval) > 1 and num_steps > 1 so that a
    # schedule counted in env steps / transitions instead of iterations is distinguishable
    dqn_cfgs = [(1, 2, 2), (2, 1, 4), (3, 2, 3), (2, 3, 2)]
    if not ctx.quick:
        dqn_cfgs = [(E, S, I) for E in (1, 2, 3) for I in (1, 2, 3, 4, 5) for S in ((1, 2) if (E + I) % 2 else (2,))]
    for E, S, I in dqn_cfgs:
        ctx.run_given("dqn", hist_cases("dqn", E, S, {"interval": I}), oracle_dqn, ctx.n(18, 150), shrink=False)
    sac_cfgs = [(1, 2, 2, True), (2, 1, 4, False), (3, 2, 3, True)] + ([(3, 2, 4, True), (2, 2, 2, False), (1, 1, 1, True), (2, 3, 3, True)] if not ctx.quick else [])
    for E, S, pf, at in sac_cfgs:
        ctx.run_given("sac", hist_cases("sac", E, S, {"pf": pf, "autotune": at}), oracle_sac, ctx.n(20, 300), shrink=False)
    learn_cfgs = [("PPO", 2, 4, 29), ("A2C", 1, 5, 15), ("DQN", 2, 3, 20), ("SAC", 1, 2, 7), ("PPO", 3, 2, 5)]
    if not ctx.quick:
        learn_cfgs += [("A2C", 3, 3, 28), ("DQN", 1, 4, 17), ("SAC", 2, 2, 13), ("PPO", 1, 8, 8), ("DQN", 3, 1, 11)]
    cases = []
    for i, (name, E, S, total) in enumerate(learn_cfgs):
        nS, nA = 4, 3
        rng = np.random.default_rng(ctx.seed + i)
        cases.append({"algo": name, "E": E, "S": S, "total": total, "P": rng.integers(0, nS, (nS, nA)).tolist(), "T": (rng.random(nS) < 0.25).tolist(), "time_limit": 4, "key": int(rng.integers(0, 2**31 - 10))})
    ctx.run_cases("learn", cases, oracle_learn)
