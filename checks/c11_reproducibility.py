"""C11 — training is reproducible, pure, and unaffected by observers."""

from __future__ import annotations

import contextlib
import io
import os
import shutil
import tempfile

import jax
import numpy as np

import equinox as eqx
from jax import numpy as jnp
from jax import random as jr

from vlib.runner import Ctx, Violation, run_pool

ALGOS = ["PPO", "A2C", "REINFORCE", "DQN", "SAC"]
CALLBACK_SETS = ["none", "empty_list", "noop", "progress", "logging_recording", "logging_console_tb", "list_of_two"]


def make_env(env_name):
    from checks.c01_step_reset import _blank_spec
    from lerax.env.classic_control import CartPole, Pendulum
    from vlib import mdp

    if env_name == "CartPole":
        return CartPole()
    if env_name == "Pendulum":
        return Pendulum()
    box = env_name == "mdp_box"
    spec = dict(_blank_spec("box" if box else "disc"))
    rng = np.random.default_rng(5)
    nS, nA = spec["nS"], spec["nA"]
    spec.update(P=rng.integers(0, nS, (nS, nA)).tolist(), R=rng.normal(0, 1, (nS, nA, nS)).round(2).tolist(), T=[False, False, True, False], I=[True, True, False, True], M=None, time_limit=5)
    return mdp.make_env(spec)


def make_algo(name, hp):
    from lerax.algorithm import A2C, DQN, PPO, REINFORCE, SAC

    E, S = hp["num_envs"], hp["num_steps"]
    lr = 3e-3
    if hp.get("warmup"):  # a learning-rate schedule that starts at zero: only an optimiser state that advances ever moves the policy
        import optax

        lr = optax.linear_schedule(0.0, 3e-3, 2)
    if name == "PPO":
        return PPO(num_envs=E, num_steps=S, num_batches=hp["num_batches"], num_epochs=hp["num_epochs"], learning_rate=lr)
    if name == "A2C":
        return A2C(num_envs=E, num_steps=S, learning_rate=lr)
    if name == "REINFORCE":
        return REINFORCE(num_envs=E, num_steps=S, learning_rate=lr)
    if name == "DQN":
        return DQN(buffer_size=64, learning_starts=4, num_envs=E, num_steps=S, batch_size=4, target_update_interval=2, learning_rate=3e-3)
    return SAC(buffer_size=64, learning_starts=4, num_envs=E, num_steps=S, batch_size=4, q_width_size=8, q_depth=1, policy_lr=3e-3, q_lr=3e-3)


def make_policy(name, env, key):
    from lerax.policy import MLPActorCriticPolicy, MLPQPolicy, MLPSACPolicy

    if name in ("PPO", "A2C", "REINFORCE"):
        return MLPActorCriticPolicy(env, feature_size=4, feature_width=8, feature_depth=1, value_width=8, value_depth=1, action_width=8, action_depth=1, key=jr.key(key))
    if name == "DQN":
        return MLPQPolicy(env, epsilon=0.3, width_size=8, depth=1, key=jr.key(key))
    return MLPSACPolicy(env, feature_size=4, width_size=8, depth=1, key=jr.key(key))


class _Recorder:
    def __init__(self):
        self.records = []


def make_callbacks(kind, total, tmpdir):
    """Returns (callback argument for learn, closer)."""
    from vlib.doubles import RecordingBackend
    from lerax.callback import AbstractStatelessCallback, ConsoleBackend, LoggingCallback, ProgressBarCallback, TensorBoardBackend

    class Noop(AbstractStatelessCallback):
        def on_step(self, ctx, *, key):
            return ctx.state

        def on_iteration(self, ctx, *, key):
            return ctx.state

        def on_training_start(self, ctx, *, key):
            return ctx.state

        def on_training_end(self, ctx, *, key):
            return ctx.state

        def continue_training(self, ctx, *, key):
            return jnp.array(True)

    closers = []
    if kind == "none":
        cb = None
    elif kind == "empty_list":
        cb = []
    elif kind == "noop":
        cb = Noop()
    elif kind == "progress":
        cb = ProgressBarCallback(total_timesteps=total, name="verif")
    elif kind == "logging_recording":
        cb = LoggingCallback(RecordingBackend(), name="verif", alpha=0.5)
        closers.append(cb.close)
    elif kind == "logging_console_tb":
        cb = LoggingCallback([TensorBoardBackend(log_dir=tmpdir), ConsoleBackend(total_timesteps=total)], name="verif")
        closers.append(cb.close)
    else:
        lg = LoggingCallback(RecordingBackend(), name="verif2", alpha=0.9)
        closers.append(lg.close)
        cb = [Noop(), lg]
    return cb, closers


def leaves(p):
    return [np.asarray(x) for x in jax.tree.leaves(p) if eqx.is_array(x)]


def identical(a, b):
    la, lb = leaves(a), leaves(b)
    return len(la) == len(lb) and all(x.dtype == y.dtype and x.shape == y.shape and x.tobytes() == y.tobytes() for x, y in zip(la, lb))


def close_up_to_reassociation(a, b):
    """Observer runs compile a different XLA program (extra outputs for the observers), so float
    parameters may differ by reassociation-level rounding (measured: 1 ulp, 2e-7 relative); a
    desynchronised random stream or an observer feeding back into training moves parameters by
    O(learning rate) = 1e-3.  Integer / bool leaves must be identical."""
    la, lb = leaves(a), leaves(b)
    if len(la) != len(lb):
        return False
    for x, y in zip(la, lb):
        if x.dtype != y.dtype or x.shape != y.shape:
            return False
        if x.dtype.kind == "f":
            if not np.allclose(x, y, rtol=1e-4, atol=1e-5):
                return False
        elif x.tobytes() != y.tobytes():
            return False
    return True


def oracle_learn(ctx: Ctx, case):
    name, env_name, hp = case["algo"], case["env"], case["hp"]
    env = make_env(env_name)
    algo = make_algo(name, hp)
    policy = make_policy(name, env, case["pkey"])
    before = [x.copy() for x in leaves(policy)]
    total = case["total"]
    tags = {"algo": name, "env": env_name}
    tmp = tempfile.mkdtemp(prefix="lerax_c11_")
    sink = io.StringIO()
    try:
        def run(key, kind):
            with contextlib.redirect_stdout(sink), contextlib.redirect_stderr(sink):
                cb, closers = make_callbacks(kind, total, tmp)
                out = algo.learn(env, policy, total, key=jr.key(key), callback=cb)
                jax.block_until_ready(jax.tree.leaves(out))
                jax.effects_barrier()
                for c in closers:
                    with contextlib.suppress(Exception):
                        c()
            return out

        base = run(case["key"], "none")
        again = run(case["key"], "none")
        ctx.check(identical(base, again), "C11/same-inputs-different-parameters", tags=tags)
        if not case.get("single_iteration"):
            # (a single Adam step from a fresh state is lr*sign(g): two keys whose first gradients merely share their sign
            # pattern legitimately give bit-identical parameters, so one-iteration runs are exempt from this clause)
            other = run(case["key"] + 1, "none")
            ctx.check(not identical(base, other), "C11/different-keys-identical-runs", tags=tags)
        trained = not identical(base, policy)
        ctx.check(trained, "C11/harness/training-did-not-change-the-policy", tags=tags)
        after = leaves(policy)
        ctx.check(all(x.tobytes() == y.tobytes() for x, y in zip(before, after)), "C11/input-policy-modified", tags=tags)
        bit_identical_observed = 0
        for kind in case["callback_sets"]:
            obs = run(case["key"], kind)
            ctx.check(close_up_to_reassociation(base, obs), "C11/observers-change-the-trained-policy", tags={**tags, "callbacks": kind}, callbacks=kind)
            if identical(base, obs):
                bit_identical_observed += 1
            ctx.check(all(x.tobytes() == y.tobytes() for x, y in zip(before, leaves(policy))), "C11/input-policy-modified", tags=tags)
        ctx.count(nontrivial=trained and (len(case["callback_sets"]) > 0 or bool(case.get("short"))), classes=[name, env_name] + ["single_iteration"] * bool(case.get("short")) + case["callback_sets"] + [f"observer_runs_bit_identical={bit_identical_observed}/{len(case['callback_sets'])}"], key=[name, env_name, hp, case["key"], case["callback_sets"]])
    finally:
        shutil.rmtree(tmp, ignore_errors=True)


_CHILD = r"""
import sys, hashlib, collections
import jax, numpy as np
from jax import numpy as jnp, random as jr
from lerax.env.classic_control import CartPole
from lerax.space import Box, Dict
from lerax.wrapper import TransformObservation
from lerax.algorithm import PPO, A2C, DQN
from lerax.policy import MLPActorCriticPolicy, MLPQPolicy
algo_name, key = sys.argv[1], int(sys.argv[2])
names = ["position", "velocity", "angle", "angular_velocity", "bias"]
space = Dict(collections.OrderedDict((n, Box(-jnp.inf, jnp.inf, shape=(1,))) for n in names))
def to_dict(o):
    return collections.OrderedDict([(names[i], o[i:i + 1]) for i in range(4)] + [("bias", jnp.ones(1))])
env = TransformObservation(CartPole(), to_dict, space)
if algo_name == "DQN":
    algo = DQN(buffer_size=64, learning_starts=4, num_envs=1, num_steps=4, batch_size=4, learning_rate=3e-3)
    policy = MLPQPolicy(env, epsilon=0.3, width_size=8, depth=1, key=jr.key(key + 1))
else:
    algo = (PPO(num_envs=2, num_steps=4, num_batches=1, num_epochs=1, learning_rate=3e-3) if algo_name == "PPO" else A2C(num_envs=2, num_steps=4, learning_rate=3e-3))
    policy = MLPActorCriticPolicy(env, feature_size=4, feature_width=8, feature_depth=1, value_width=8, value_depth=1, action_width=8, action_depth=1, key=jr.key(key + 1))
out = algo.learn(env, policy, 24, key=jr.key(key))
h = hashlib.sha256()
for leaf in jax.tree.leaves(out):
    if hasattr(leaf, "dtype"):
        h.update(np.asarray(leaf).tobytes())
print("DIGEST", h.hexdigest())
"""


def oracle_cross_process(ctx: Ctx, case):
    """Training is a function of its inputs also across interpreter starts: the same (env with a 5-entry Dict observation,
    policy key, hyper-parameters, key) in fresh processes with different PYTHONHASHSEED values gives one parameter digest."""
    import os
    import subprocess
    import sys

    procs = []
    for hs in case["hash_seeds"]:
        env = dict(os.environ, PYTHONHASHSEED=str(hs), JAX_PLATFORMS="cpu")
        procs.append(subprocess.Popen([sys.executable, "-c", _CHILD, case["algo"], str(case["key"])], env=env, stdout=subprocess.PIPE, stderr=subprocess.PIPE, text=True))
    digests = []
    for hs, pr in zip(case["hash_seeds"], procs):
        out, err = pr.communicate(timeout=1200)
        lines = [l for l in out.splitlines() if l.startswith("DIGEST ")]
        if pr.returncode != 0 or not lines:
            ctx.fail("C11/cross-process/training-run-failed", tags={"algo": case["algo"]}, hash_seed=hs, stderr=err[-600:])
        digests.append(lines[-1].split()[1])
    ctx.check(len(set(digests)) == 1, "C11/cross-process/parameters-depend-on-the-interpreters-hash-seed", tags={"algo": case["algo"]}, digests=dict(zip(map(str, case["hash_seeds"]), digests)))
    ctx.count(nontrivial=True, classes=["cross_process", case["algo"]], key=[case["algo"], case["key"], case["hash_seeds"]])


PARTS = {"learn": oracle_learn, "cross_process": oracle_cross_process}


def worker(ctx: Ctx, payload):
    for case in payload:
        try:
            ctx.call("learn", oracle_learn, case)
        except Violation as v:
            ctx.violations.append(v)
            ctx.skip_buckets.add(v.bucket)


def run(ctx: Ctx):
    ctx.rule = (
        "For each of PPO, A2C, REINFORCE, DQN, SAC on CartPole / Pendulum / generated finite MDPs with small drawn "
        "hyper-parameters and keys: learn() twice with identical inputs (bit-identical array leaves required), once with another "
        "key (must differ), input policy compared with a host copy taken beforehand, and once per observer set (equal up to reassociation-level rounding: rtol 1e-4 / atol 1e-5, integer leaves exactly; see DESIGN 5.3) (None, [], a no-op "
        "callback, ProgressBar, LoggingCallback with a recording back end, LoggingCallback with Console+TensorBoard, a list of two) "
        "against the unobserved run; the same training in four fresh interpreter processes with different PYTHONHASHSEED values (5-entry Dict observation) must give one parameter digest; plus one single-iteration run per algorithm (determinism, purity, policy moved; exempt from the other-key clause because a first Adam step is sign-only) and one three-iteration run per on-policy algorithm with a learning-rate warm-up schedule starting at 0 (same key twice, another key, purity). Non-trivial: training changed the policy and at least one observer set was attached; distinct "
        "by (algorithm, env, hyper-parameters, key, observer sets)."
    )
    ctx.assumptions = ["bit-identity within one process / XLA build", "observer output is captured (stdout/stderr redirected, TensorBoard in a temp dir)"]
    rng = np.random.default_rng(ctx.seed + 11)
    envs = {"PPO": ["CartPole", "mdp_box"], "A2C": ["mdp_disc", "Pendulum"], "REINFORCE": ["CartPole", "mdp_disc"], "DQN": ["CartPole", "mdp_disc"], "SAC": ["Pendulum", "mdp_box"]}
    payloads = []
    n_cfg = ctx.n(1, 4)
    for name in ALGOS:
        for env_name in envs[name] if not ctx.quick else envs[name][: 2]:
            cases = []
            for c in range(n_cfg):
                E = int(rng.choice([1, 2, 3]))
                S = int(rng.choice([2, 4, 5]))
                hp = {"num_envs": E, "num_steps": S, "num_batches": int(rng.choice([1, 2])), "num_epochs": int(rng.choice([1, 2]))}
                if hp["num_batches"] > E * S:
                    hp["num_batches"] = 1
                iters = int(rng.choice([2, 3]))
                # quick: the structurally different ways of passing observers (empty list, non-empty list) plus one
                # randomly chosen single observer; thorough: all of them
                sets = list(CALLBACK_SETS[1:]) if not ctx.quick else ["empty_list", "list_of_two", str(rng.choice(["noop", "progress", "logging_recording", "logging_console_tb"]))]
                cases.append({"algo": name, "env": env_name, "hp": hp, "total": E * S * iters + int(rng.integers(0, E * S)), "key": int(rng.integers(0, 2**31 - 10)), "pkey": int(rng.integers(0, 2**31 - 10)), "callback_sets": sets})
            payloads.append(cases)
        if name in ("PPO", "A2C", "REINFORCE"):
            E, S = int(rng.choice([1, 2])), int(rng.choice([2, 4]))
            hp = {"num_envs": E, "num_steps": S, "num_batches": 1, "num_epochs": 1, "warmup": True}
            payloads.append([{"algo": name, "env": envs[name][0], "hp": hp, "total": E * S * 3, "key": int(rng.integers(0, 2**31 - 10)), "pkey": int(rng.integers(0, 2**31 - 10)), "callback_sets": [], "short": True}])
        # the shortest possible run (a single iteration, no observers): determinism, purity and key-dependence must already hold
        E, S = int(rng.choice([1, 2])), int(rng.choice([1, 3]))
        hp = {"num_envs": E, "num_steps": S, "num_batches": 1, "num_epochs": 1}
        payloads.append([{"algo": name, "env": envs[name][0], "hp": hp, "total": E * S + int(rng.integers(0, E * S)), "key": int(rng.integers(0, 2**31 - 10)), "pkey": int(rng.integers(0, 2**31 - 10)), "callback_sets": [], "short": True, "single_iteration": True}])
    run_pool(ctx, "checks.c11_reproducibility", "worker", payloads, procs=10)
    for name in ("PPO",) if ctx.quick else ("PPO", "A2C", "DQN"):
        ctx.run_cases("cross_process", [{"algo": name, "key": int(rng.integers(0, 2**31 - 10)), "hash_seeds": [1, 2, 3, 4]}], oracle_cross_process)
