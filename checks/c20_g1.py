"""C20 — Unitree G1 episodes are randomised within range and gait phase stays coherent."""

from __future__ import annotations

import functools

import jax
import numpy as np

import equinox as eqx
from hypothesis import strategies as st
from jax import numpy as jnp
from jax import random as jr

from vlib.runner import Ctx, Violation, run_pool

PI = float(np.pi)
F32 = np.float32


def wrap(x):
    return (np.asarray(x, np.float64) + PI) % (2 * PI) - PI


# ----------------------------------------------------------------------------- gait helpers (cheap, pure)
@functools.lru_cache(maxsize=None)
def _gait():
    from lerax.env.unitree.g1 import gait

    adv = jax.jit(gait.advance_gait_phase)
    hgt = jax.jit(gait.desired_foot_height)

    def many(phase, f, dt, n):
        def body(p, _):
            q = gait.advance_gait_phase(p, f, dt)
            return q, q

        return jax.lax.scan(body, phase, None, length=n)[1]

    return adv, hgt, jax.jit(many, static_argnums=3), gait


def oracle_advance(ctx: Ctx, case):
    adv, hgt, many, gait = _gait()
    f, dt = F32(case["frequency"]), F32(case["dt"])
    p0 = np.asarray([case["phase"], float(wrap(case["phase"] + PI))], F32)
    n = case["steps"]
    ps = np.asarray(many(jnp.asarray(p0), jnp.asarray(f), jnp.asarray(dt), n), np.float64)
    allp = np.vstack([p0[None].astype(np.float64), ps])
    # float32 accumulation over n additions: each step rounds phase + increment (magnitude up to |inc| + pi) once per foot
    tol = 2e-5 * (1 + n / 50) + n * 2 * 6e-8 * (abs(2 * PI * float(f) * float(dt)) + 2 * PI)
    ctx.check(bool(np.all((allp >= -PI - 1e-6) & (allp <= PI + 1e-6))), "C20/gait/phase-leaves-[-pi,pi]", min=float(allp.min()), max=float(allp.max()), frequency=float(f))
    inc = 2 * PI * float(f) * float(dt)
    d = wrap(np.diff(allp, axis=0) - inc)
    ctx.check(bool(np.all(np.abs(d) < 5e-6 + 1e-6 * abs(inc))), "C20/gait/phase-does-not-advance-by-2pi-f-dt", worst=float(np.abs(d).max()), increment=inc)
    apart = np.abs(np.abs(wrap(allp[:, 0] - allp[:, 1])) - PI)
    ctx.check(bool(np.all(apart < tol)), "C20/gait/feet-not-half-a-cycle-apart", worst=float(apart.max()), steps=n)
    wraps = int(np.sum(np.diff(allp[:, 0]) < -PI))
    ctx.count(nontrivial=wraps >= 1, classes=["wrapped"] * bool(wraps) + [f"steps<={100 if n <= 100 else 5000}"], key=case)


def oracle_foot_height(ctx: Ctx, case):
    adv, hgt, many, gait = _gait()
    h = F32(case["swing_height"])
    grid = np.asarray(case["phases"], F32)
    out = np.asarray(jax.vmap(lambda p: hgt(jnp.stack([p, p]), h)[0])(jnp.asarray(grid)), np.float64)
    ctx.check(bool(np.all((out >= -1e-6) & (out <= float(h) * (1 + 1e-5) + 1e-7))), "C20/gait/foot-height-outside-[0,swing-height]", min=float(out.min()), max=float(out.max()), swing_height=float(h))
    ends = np.asarray(hgt(jnp.asarray([-PI, 0.0], F32), h), np.float64)
    ctx.check(abs(ends[0]) < 1e-6, "C20/gait/foot-height-not-zero-at-minus-pi", value=float(ends[0]))
    ctx.check(abs(ends[1] - float(h)) < 1e-6 * (1 + float(h)), "C20/gait/foot-height-not-peaking-at-zero", value=float(ends[1]), swing_height=float(h))
    top = float(np.asarray(hgt(jnp.asarray([PI, PI], F32), h))[0])
    ctx.check(abs(top) < 1e-5 * (1 + float(h)), "C20/gait/foot-height-not-zero-at-plus-pi", value=top)
    # continuity at the branch point and monotone halves on a sorted grid
    s = np.sort(grid)
    o = np.asarray(jax.vmap(lambda p: hgt(jnp.stack([p, p]), h)[0])(jnp.asarray(s)), np.float64)
    rise, fall = o[s <= 0], o[s >= 0]
    ctx.check(bool(np.all(np.diff(rise) >= -1e-6 * (1 + float(h)))), "C20/gait/foot-height-not-monotone-rising", swing_height=float(h))
    ctx.check(bool(np.all(np.diff(fall) <= 1e-6 * (1 + float(h)))), "C20/gait/foot-height-not-monotone-falling", swing_height=float(h))
    eps = np.asarray(hgt(jnp.asarray([-1e-4, 1e-4], F32), h), np.float64)
    ctx.check(abs(eps[0] - eps[1]) < 1e-4 * (1 + float(h)), "C20/gait/foot-height-discontinuous-at-branch", values=eps)
    ctx.count(nontrivial=True, classes=["foot_height"], key=[round(float(h), 4), len(grid)])


# ----------------------------------------------------------------------------- environments (process pool)
def make_g1(task, cfg):
    from lerax.env.unitree.g1 import G1Locomotion, G1Standing, G1Standup

    cls = {"locomotion": G1Locomotion, "standing": G1Standing, "standup": G1Standup}[task]
    kw = dict(push_enable=False, noise_level=0.0)
    kw.update({k: tuple(v) if isinstance(v, list) else v for k, v in cfg.items()})
    return cls(**kw)


def check_initial(ctx: Ctx, task, env, cfg, keys, tags):
    states = eqx.filter_jit(jax.vmap(lambda k: env.initial(key=k)))(keys)
    n = keys.shape[0]
    base = env.base_model
    fr = env.friction_range
    pf = np.asarray(states.model.pair_friction, np.float64)
    bpf = np.asarray(base.pair_friction, np.float64)
    sl = 1e-6
    blk = pf[:, 0:2, 0:2]
    ctx.check(bool(np.all((blk >= fr[0] - sl) & (blk <= fr[1] + sl))), "C20/init/contact-friction-outside-range", tags=tags, min=float(blk.min()), max=float(blk.max()), range=list(fr))
    rest = pf.copy()
    rest[:, 0:2, 0:2] = bpf[0:2, 0:2]
    ctx.check(bool(np.all(rest == bpf[None])), "C20/init/pair-friction-changed-outside-the-foot-pairs", tags=tags)
    for nm, field, nominal, rng, lo_idx in (
        ("joint-friction-loss", "dof_frictionloss", np.asarray(env.nominal_friction_loss, np.float64), env.friction_loss_scale_range, 6),
        ("armature", "dof_armature", np.asarray(env.nominal_armature, np.float64), env.armature_scale_range, 6),
    ):
        val = np.asarray(getattr(states.model, field), np.float64)
        bval = np.asarray(getattr(base, field), np.float64)
        ctx.check(bool(np.all(val[:, :lo_idx] == bval[None, :lo_idx])), f"C20/init/{nm}-changed-for-unactuated-dofs", tags=tags)
        act = val[:, lo_idx:]
        nz = nominal != 0
        ratio = act[:, nz] / nominal[nz]
        ctx.check(bool(np.all((ratio >= rng[0] - 1e-5) & (ratio <= rng[1] + 1e-5))), f"C20/init/{nm}-scale-outside-range", tags=tags, min=float(ratio.min()) if ratio.size else None, max=float(ratio.max()) if ratio.size else None, range=list(rng))
        ctx.check(bool(np.all(act[:, ~nz] == 0)), f"C20/init/{nm}-nonzero-where-nominal-is-zero", tags=tags)
    mass = np.asarray(states.model.body_mass, np.float64)
    nominal = np.asarray(env.nominal_body_mass, np.float64)
    tid = int(env.torso_body_id)
    mr, tr = env.mass_scale_range, env.torso_offset_range
    others = np.ones(len(nominal), bool)
    others[tid] = False
    nz = (nominal != 0) & others
    ratio = mass[:, nz] / nominal[nz]
    ctx.check(bool(np.all((ratio >= mr[0] - 1e-5) & (ratio <= mr[1] + 1e-5))), "C20/init/body-mass-scale-outside-range", tags=tags, min=float(ratio.min()), max=float(ratio.max()), range=list(mr))
    t = mass[:, tid]
    ctx.check(bool(np.all((t >= nominal[tid] * mr[0] + tr[0] - 1e-4) & (t <= nominal[tid] * mr[1] + tr[1] + 1e-4))), "C20/init/torso-mass-outside-range", tags=tags, min=float(t.min()), max=float(t.max()))
    # every other model parameter equals the nominal one
    touched = {"pair_friction", "dof_frictionloss", "dof_armature", "body_mass"}
    flat_s = jax.tree_util.tree_leaves_with_path(states.model)
    flat_b = jax.tree_util.tree_leaves_with_path(base)
    ctx.check(len(flat_s) == len(flat_b), "C20/init/model-structure-changed", tags=tags)
    for (ps, ls), (pb, lb) in zip(flat_s, flat_b):
        name = jax.tree_util.keystr(ps)
        if any(tn in name for tn in touched):
            continue
        a, b = np.asarray(ls), np.asarray(lb)
        same = a.shape == (n,) + b.shape and bool(np.all(a == b[None])) if a.shape != b.shape else bool(np.all(a == b))
        ctx.check(same, "C20/init/other-model-parameter-differs-from-nominal", tags=tags, leaf=name)
    # command / gait frequency
    cmd = np.asarray(states.command, np.float64)
    gf = np.asarray(states.gait_frequency, np.float64)
    if task == "locomotion":
        # a documented fraction of episodes (zero_command_probability) gets the all-zero command
        zero = np.all(cmd == 0, axis=1) & (float(env.zero_command_probability) > 0)
        for i, r in enumerate((env.lin_vel_x_range, env.lin_vel_y_range, env.ang_vel_yaw_range)):
            r = np.asarray(r, np.float64)
            c = cmd[~zero, i]
            ctx.check(bool(np.all((c >= r[0] - 1e-6) & (c <= r[1] + 1e-6))), "C20/init/command-outside-range", tags=tags, component=i, min=float(c.min()) if c.size else None, max=float(c.max()) if c.size else None, range=r)
        r = np.asarray(env.gait_frequency_range, np.float64)
        ctx.check(bool(np.all((gf >= r[0] - 1e-6) & (gf <= r[1] + 1e-6))), "C20/init/gait-frequency-outside-range", tags=tags, min=float(gf.min()), max=float(gf.max()), range=r)
    else:
        ctx.check(bool(np.all(cmd == 0)), "C20/init/non-zero-command-for-standing-task", tags=tags)
    ph = np.asarray(states.gait_phase, np.float64)
    ctx.check(bool(np.all(np.abs(ph) <= PI + 1e-6)) and bool(np.all(np.abs(np.abs(wrap(ph[:, 0] - ph[:, 1])) - PI) < 1e-5)), "C20/init/gait-phases-not-half-a-cycle-apart", tags=tags)
    ctx.check(bool(np.all(np.asarray(states.t) == 0) and np.all(np.asarray(states.step_count) == 0)), "C20/init/clock-not-zero", tags=tags)
    # derived kinematics consistent with the joint configuration
    from mujoco import mjx

    fwd = eqx.filter_jit(jax.vmap(lambda s: mjx.forward(s.model, s.sim_state)))(states)
    for fld in ("xpos", "xquat", "xmat", "site_xpos", "site_xmat", "xipos"):
        a, b = np.asarray(getattr(states.sim_state, fld), np.float64), np.asarray(getattr(fwd, fld), np.float64)
        ctx.check(bool(np.allclose(a, b, rtol=1e-4, atol=2e-5)), "C20/init/derived-kinematics-inconsistent-with-configuration", tags=tags, field=fld, worst=float(np.abs(a - b).max()))
    outer = 0
    span = fr[1] - fr[0]
    if span > 0:
        f0 = blk[:, 0, 0]
        outer = int(np.sum((f0 < fr[0] + 0.1 * span) | (f0 > fr[1] - 0.1 * span)))
    return states, outer


def check_rollout(ctx: Ctx, task, env, states, n_steps, key, tags):
    s0 = jax.tree.map(lambda x: x[0], states)
    low, high = env.action_space.low, env.action_space.high

    @eqx.filter_jit
    def roll(s, key):
        def body(c, k):
            ka, kt = jr.split(k)
            a = jr.uniform(ka, low.shape, minval=low, maxval=high)
            c2 = env.transition(c, a, key=kt)
            return c2, (c2.gait_phase, c2.t, c2.step_count)

        return jax.lax.scan(body, s, jr.split(key, n_steps))[1]

    ph, t, sc = roll(s0, key)
    ph = np.vstack([np.asarray(s0.gait_phase, np.float64)[None], np.asarray(ph, np.float64)])
    f, dt = float(s0.gait_frequency), float(env.dt)
    ctx.check(bool(np.all(np.abs(ph) <= PI + 1e-5)), "C20/rollout/phase-leaves-[-pi,pi]", tags=tags, min=float(ph.min()), max=float(ph.max()))
    d = wrap(np.diff(ph, axis=0) - 2 * PI * f * dt)
    ctx.check(bool(np.all(np.abs(d) < 2e-5)), "C20/rollout/phase-does-not-advance-by-2pi-f-dt-per-control-step", tags=tags, worst=float(np.abs(d).max()), frequency=f, dt=dt)
    apart = np.abs(np.abs(wrap(ph[:, 0] - ph[:, 1])) - PI)
    ctx.check(bool(np.all(apart < 1e-4)), "C20/rollout/feet-not-half-a-cycle-apart", tags=tags, worst=float(apart.max()))
    ctx.check(bool(np.allclose(np.asarray(sc), np.arange(1, n_steps + 1))), "C20/rollout/step-count", tags=tags)
    from lerax.env.unitree.g1 import gait

    hs = np.asarray(jax.vmap(lambda p: gait.desired_foot_height(p, 0.15))(jnp.asarray(ph, jnp.float32)), np.float64)
    ctx.check(bool(np.all((hs >= -1e-6) & (hs <= 0.15 + 1e-6))), "C20/rollout/desired-foot-height-outside-range", tags=tags)
    return int(np.sum(np.diff(ph[:, 0]) < -PI))


def oracle_env(ctx: Ctx, case):
    task, cfg = case["task"], case["cfg"]
    env = make_g1(task, cfg)
    tags = {"task": task}
    keys = jr.split(jr.key(case["key"]), case["n_keys"])
    states, outer = check_initial(ctx, task, env, cfg, keys, tags)
    wraps = check_rollout(ctx, task, env, states, case["steps"], jr.key(case["key"] + 1), tags) if case["steps"] else 0
    ctx.count(nontrivial=outer > 0 or wraps > 0, classes=[task] + ["outer_decile_friction"] * bool(outer) + ["phase_wrapped"] * bool(wraps), key=[task, cfg, case["key"]])


def env_worker(ctx: Ctx, payload):
    for case in payload:
        try:
            ctx.call("env", oracle_env, case)
        except Violation as v:
            ctx.violations.append(v)
            ctx.skip_buckets.add(v.bucket)


PARTS = {"advance": oracle_advance, "foot_height": oracle_foot_height, "env": oracle_env}


@st.composite
def advance_cases(draw, long=False):
    return {
        "phase": draw(st.one_of(st.sampled_from([0.0, -PI, PI, float(np.nextafter(F32(PI), F32(0))), -1e-7]), st.floats(-PI, PI, allow_nan=False))),
        # "all gait frequencies": also clocks that advance by several whole cycles per control step (f*dt > 1)
        "frequency": draw(st.one_of(st.sampled_from([0.0, 1.25, 1.5, 4.0, 2.0, 25.0, 50.0, 61.0]), st.floats(0, 4, allow_nan=False), st.floats(4, 120, allow_nan=False))),
        "dt": draw(st.sampled_from([0.02, 0.04, 0.1])),
        "steps": draw(st.sampled_from([5000] if long else [1, 10, 100])),
    }


@st.composite
def height_cases(draw):
    n = draw(st.sampled_from([64, 257]))
    grid = sorted({-PI, PI, 0.0, -1e-6, 1e-6, float(np.nextafter(F32(-PI), F32(0)))} | {draw(st.floats(-PI, PI, allow_nan=False)) for _ in range(n)})
    return {"swing_height": draw(st.one_of(st.sampled_from([0.15, 0.05, 0.3]), st.floats(0.01, 0.5, allow_nan=False))), "phases": grid}


CFGS = [
    {},
    {"friction_range": [0.2, 0.3], "friction_loss_scale_range": [1.0, 3.0], "armature_scale_range": [0.9, 1.0], "mass_scale_range": [0.5, 0.6], "torso_offset_range": [2.0, 3.0]},
    {"friction_range": [0.7, 0.7], "mass_scale_range": [1.0, 1.0], "torso_offset_range": [0.0, 0.0]},
]
LOCO_EXTRA = [{}, {"lin_vel_x_range": [0.5, 2.0], "lin_vel_y_range": [-0.1, 0.0], "ang_vel_yaw_range": [0.2, 0.3], "gait_frequency_range": [2.0, 3.5]}, {"zero_command_probability": 0.0}]


def run(ctx: Ctx):
    ctx.rule = (
        "Gait helpers: phases over [-pi, pi] incl. +-pi and +-1 ulp, frequencies in [0,120] Hz (incl. several cycles per step), dt in {0.02, 0.04, 0.1}, histories of up "
        "to 5000 advance steps (range, increment 2*pi*f*dt mod 2*pi, half-cycle offset), desired foot height on dense phase grids "
        "(range, 0 at -pi, peak at 0, monotone halves, continuity). Environments (3 tasks x range configurations, process pool): "
        "vmapped initial() over many keys - randomised friction / friction loss / armature / masses inside the configured ranges, "
        "every other model leaf bit-identical to the nominal model, command / gait frequency ranges (zero command for standing "
        "tasks), mjx.forward reproduces the stored kinematics (body/site poses); rollouts with random in-space actions - phase coherence per control "
        "step. Non-trivial: a phase wrap / a friction draw in the outer 10% of its range."
    )
    ctx.assumptions = ["push_enable=False, noise_level=0.0 for rollouts", "float32 default mode"]
    ctx.run_given("advance", advance_cases(), oracle_advance, ctx.n(200, 4000))
    ctx.run_given("advance", advance_cases(long=True), oracle_advance, ctx.n(30, 500))
    ctx.run_given("foot_height", height_cases(), oracle_foot_height, ctx.n(60, 1500))
    payloads = []
    for task in ("locomotion", "standing", "standup"):
        n_cfg = 1 if ctx.quick else 3
        cases = []
        for i in range(n_cfg):
            # quick: always a NON-default configuration (defaults hide a range that is silently ignored)
            k = 1 if ctx.quick else i  # CFGS[1]: every range shifted away from its default and from the neutral values
            cfg = dict(CFGS[k])
            if task == "locomotion":
                cfg.update(LOCO_EXTRA[k])
            cases.append({"task": task, "cfg": cfg, "key": ctx.seed * 100 + i, "n_keys": ctx.n(48, 1024), "steps": ctx.n(40, 400) if i == 0 else 0})
        payloads.append(cases)
    run_pool(ctx, "checks.c20_g1", "env_worker", payloads, procs=3)
    ctx.require_fraction("advance", "wrapped", 0.2)
