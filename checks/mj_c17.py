"""C17, MuJoCo part: lerax MuJoCo environments vs Gymnasium *-v5 (default float32 mode for lerax).

Layers per environment:
  mj_model    static identity of model / frame_skip / dt / control range / initial configuration
  mj_reset    observation of lerax's reset state vs Gymnasium's _get_obs() after set_state(qpos, qvel)
  mj_step     step semantics with physics substituted: Gymnasium's own step() judges lerax's successor
              state (its do_simulation is replaced by "load lerax's successor (qpos, qvel, ctrl), mj_forward,
              mj_rnePostConstraint" - the bookkeeping its real do_simulation performs after stepping)
  mj_physics  one control step from a re-synchronised state: lerax.transition (MJX) vs C MuJoCo
"""

from __future__ import annotations

import functools

import gymnasium as gym
import jax
import mujoco
import numpy as np

import equinox as eqx
from jax import numpy as jnp
from jax import random as jr

from vlib.runner import Ctx, Violation, run_pool

ENVS = ["InvertedPendulum", "InvertedDoublePendulum", "HalfCheetah", "Hopper", "Walker2d", "Swimmer", "Reacher", "Pusher", "Ant", "Humanoid", "HumanoidStandup"]
OBS_TOL = dict(rtol=1e-4, atol=2e-5)


@functools.lru_cache(maxsize=None)
def lerax_env(name, opts=()):
    from lerax.env import mujoco as mj

    return getattr(mj, name)(**dict(opts))


@functools.lru_cache(maxsize=None)
def gym_env(name, opts=()):
    return gym.make(f"{name}-v5", **dict(opts)).unwrapped


@eqx.filter_jit
def _initial(env, key):
    s = env.initial(key=key)
    return s, env.observation(s, key=key)


@eqx.filter_jit
def _trans(env, s, a):
    s2 = env.transition(s, a, key=jr.key(0))
    k = jr.key(0)
    return s2, env.observation(s2, key=k), env.reward(s, a, s2, key=k), env.terminal(s2, key=k), env.transition_info(s, a, s2)


@eqx.filter_jit
def _funcs(env, s, a, s2):
    k = jr.key(0)
    return env.observation(s2, key=k), env.reward(s, a, s2, key=k), env.terminal(s2, key=k), env.transition_info(s, a, s2)


def _opts_key(opts):
    """JSON-able option dict -> hashable, sorted tuple (ranges become tuples; 'inf' strings become floats)."""
    conv = lambda v: tuple(float(x) for x in v) if isinstance(v, (list, tuple)) else v
    return tuple(sorted((k, conv(v)) for k, v in dict(opts).items()))


def _np(x):
    return np.asarray(x, np.float64)


def _cfrc(state):
    d = state.sim_state
    impl = getattr(d, "_impl", None)
    return _np(impl.cfrc_ext if impl is not None and hasattr(impl, "cfrc_ext") else d.cfrc_ext)


def sync_gym(g, qpos, qvel):
    g.reset(seed=0)
    g.set_state(_np(qpos).copy(), _np(qvel).copy())


# ----------------------------------------------------------------------------- model identity
def oracle_model(ctx: Ctx, case):
    name = case["env"]
    L, G = lerax_env(name), gym_env(name)
    m1, m2 = L.mujoco_model, G.model
    tags = {"env": name}
    ctx.check(int(L.frame_skip) == int(G.frame_skip), f"C17/{name}/frame-skip-differs", tags=tags, lerax=int(L.frame_skip), reference=int(G.frame_skip))
    ctx.check(abs(float(L.dt) - float(G.dt)) < 1e-9, f"C17/{name}/control-dt-differs", tags=tags, lerax=float(L.dt), reference=float(G.dt))
    for f in ("nq", "nv", "nu", "nbody", "ngeom"):
        ctx.check(getattr(m1, f) == getattr(m2, f), f"C17/{name}/model-size-differs", tags=tags, field=f)
    for f in ("body_mass", "body_inertia", "geom_size", "geom_friction", "actuator_gear", "actuator_ctrlrange", "jnt_range", "dof_damping", "dof_armature", "qpos0", "opt.timestep", "opt.gravity"):
        a, b = m1, m2
        for part in f.split("."):
            a, b = getattr(a, part), getattr(b, part)
        ctx.check(np.allclose(_np(a), _np(b), rtol=1e-9, atol=1e-12), f"C17/{name}/model-parameter-differs", tags=tags, field=f)
    ctx.check(int(m1.opt.integrator) == int(m2.opt.integrator), f"C17/{name}/model-parameter-differs", tags=tags, field="opt.integrator")
    ctx.close(_np(L.init_qpos), _np(G.init_qpos), f"C17/{name}/init-qpos-differs", tags=tags, rtol=1e-6, atol=1e-6)
    ctx.close(_np(L.action_space.low), _np(G.action_space.low), f"C17/{name}/action-range-differs", tags=tags, rtol=1e-6, atol=1e-6)
    ctx.close(_np(L.action_space.high), _np(G.action_space.high), f"C17/{name}/action-range-differs", tags=tags, rtol=1e-6, atol=1e-6)
    ctx.check(tuple(L.observation_space.shape) == tuple(G.observation_space.shape), f"C17/{name}/observation-size-differs", tags=tags, lerax=list(L.observation_space.shape), reference=list(G.observation_space.shape))
    ctx.count(nontrivial=True, classes=[name], key=[name, "model"])


# ----------------------------------------------------------------------------- trajectories
def _actions(rng, low, high, n, mode):
    hold = np.where(rng.random(low.shape) < 0.5, low, high)
    out = []
    for _ in range(n):
        if mode == "uniform":
            a = rng.uniform(low, high)
        elif mode == "corner":
            a = np.where(rng.random(low.shape) < 0.5, low, high)
        elif mode == "hold":
            a = hold
        else:
            a = np.zeros_like(low)
        out.append(a.astype(np.float32))
    return out


def _compare_step(ctx, name, G, s, a, s2, obs2, rew, term, info, first, tags):
    """Gymnasium's own step() with its physics replaced by lerax's successor state.

    The pre-state is loaded the way the reference would hold it: after a reset it is set_state()
    (fresh forward kinematics); in the middle of an episode it is the complete simulator data of the
    previous step (derived quantities as the last mj_step left them), copied from lerax's state."""
    from mujoco import mjx

    G.reset(seed=0)
    if first:
        G.set_state(_np(s.sim_state.qpos).copy(), _np(s.sim_state.qvel).copy())
    else:
        mjx.get_data_into(G.data, G.model, s.sim_state)

    def substituted(ctrl, n_frames):
        # the successor's complete simulator data, including the external contact forces it carries
        # (whether those forces are physically right is layer mj_physics' question, not this one's)
        mjx.get_data_into(G.data, G.model, s2.sim_state)
        G.data.cfrc_ext[:] = _cfrc(s2)

    orig = G.do_simulation
    G.do_simulation = substituted
    try:
        gobs, grew, gterm, gtrunc, ginfo = G.step(np.asarray(a, np.float64))
    finally:
        G.do_simulation = orig
    which = "first-step" if first else "step"
    contact = G.data.ncon > 0
    if _np(obs2).shape != _np(gobs).shape:
        ctx.fail(f"C17/{name}/observation-size-differs", tags=tags, lerax=list(_np(obs2).shape), reference=list(_np(gobs).shape))
    d_obs = float(np.max(np.abs(_np(obs2) - _np(gobs)) / (2e-5 + 1e-4 * np.abs(_np(gobs)))))
    if d_obs > 1.0:
        idx = int(np.argmax(np.abs(_np(obs2) - _np(gobs))))
        ctx.fail(f"C17/{name}/observation-after-step-differs", tags=tags, index=idx, lerax=float(_np(obs2)[idx]), reference=float(_np(gobs)[idx]), contact=bool(contact))
    if not np.isclose(float(rew), float(grew), rtol=2e-4, atol=3e-5):
        comps = {k: (float(np.asarray(info[k])), float(ginfo[k])) for k in info if k in ginfo and np.ndim(ginfo[k]) == 0 and not np.isclose(float(np.asarray(info[k])), float(ginfo[k]), rtol=2e-4, atol=3e-5)}
        ctx.fail(f"C17/{name}/reward-differs-{which}", tags=tags, lerax=float(rew), reference=float(grew), differing_components=comps, contact=bool(contact))
    ctx.check(bool(term) == bool(gterm), f"C17/{name}/terminated-differs", tags=tags, lerax=bool(term), reference=bool(gterm))
    for k in info:
        if k in ginfo and np.ndim(ginfo[k]) == 0:
            if not np.isclose(float(np.asarray(info[k])), float(ginfo[k]), rtol=2e-4, atol=3e-5):
                ctx.fail(f"C17/{name}/reward-component-differs/{k}-{which}", tags=tags, lerax=float(np.asarray(info[k])), reference=float(ginfo[k]), contact=bool(contact))
    return bool(gterm), bool(contact)


def oracle_episode(ctx: Ctx, case):
    """reset + a short action sequence; every step is judged by layers mj_reset / mj_step."""
    name = case["env"]
    opts = _opts_key(case.get("opts", {}))
    L, G = lerax_env(name, opts), gym_env(name, opts)
    tags = {"env": name}
    s, obs = _initial(L, jr.key(case["key"]))
    # layer R: reset observation vs the reference's observation of the same (qpos, qvel)
    sync_gym(G, s.sim_state.qpos, s.sim_state.qvel)
    gobs = G._get_obs()
    d = np.abs(_np(obs) - _np(gobs)) / (2e-5 + 1e-4 * np.abs(_np(gobs)))
    if d.max() > 1.0:
        idx = int(np.argmax(d))
        ctx.fail(f"C17/{name}/reset-observation-differs", tags=tags, index=idx, lerax=float(_np(obs)[idx]), reference=float(_np(gobs)[idx]), n_bad=int((d > 1).sum()))
    # reset noise: configuration within the reference's reset range around init_qpos
    scale = float(getattr(G, "_reset_noise_scale", 0.0) or 0.0)
    if scale and name not in ("Reacher", "Pusher"):
        dq = np.abs(_np(s.sim_state.qpos) - _np(G.init_qpos))
        # quaternion coordinates of free/ball joints are re-normalised by forward kinematics (in the
        # reference as well), so the noise bound only applies to the other coordinates
        quat = np.zeros(G.model.nq, bool)
        for j in range(G.model.njnt):
            adr = G.model.jnt_qposadr[j]
            if G.model.jnt_type[j] == mujoco.mjtJoint.mjJNT_FREE:
                quat[adr + 3 : adr + 7] = True
            elif G.model.jnt_type[j] == mujoco.mjtJoint.mjJNT_BALL:
                quat[adr : adr + 4] = True
        dq = dq[~quat]
        ctx.check(bool(np.all(dq <= scale * 1.0001 + 1e-7)), f"C17/{name}/reset-configuration-outside-reference-range", tags=tags, max_dev=float(dq.max()), scale=scale)
    flags = set()
    first = True
    for a in case["actions"]:
        a = jnp.asarray(a, dtype=jnp.float32)
        s2, obs2, rew, term, info = _trans(L, s, a)
        if not np.all(np.isfinite(_np(s2.sim_state.qpos))):
            break
        gterm, contact = _compare_step(ctx, name, G, s, a, s2, obs2, rew, term, info, first, tags)
        flags.add("first_step") if first else None
        if contact:
            flags.add("contact")
        if gterm:
            flags.add("unhealthy_successor")
        first = False
        s = s2
        if gterm:
            break
    ctx.count(nontrivial=bool(flags & {"contact", "unhealthy_successor", "first_step"}), classes=[name] + sorted(flags), key=[name, case["key"], sorted(flags), len(case["actions"])])


def oracle_physics(ctx: Ctx, case):
    """Single control steps from re-synchronised states: MJX (lerax.transition) vs C MuJoCo (Gymnasium
    step), aggregated over the episodes of the case.  A wrong frame_skip / control mapping / model breaks
    (almost) every step; MJX-vs-C solver differences on constraint-rich steps are upstream and are
    tolerated by a floor fraction (counted, never reported)."""
    name = case["env"]
    L, G = lerax_env(name), gym_env(name)
    agree = total = contact_cases = contact_ok = 0
    for ep in case["episodes"]:
        s, _ = _initial(L, jr.key(ep["key"]))
        for a in ep["actions"]:
            a = jnp.asarray(a, dtype=jnp.float32)
            s2, *_ = _trans(L, s, a)
            if not np.all(np.isfinite(_np(s2.sim_state.qpos))):
                break
            sync_gym(G, s.sim_state.qpos, s.sim_state.qvel)
            G.step(np.asarray(a, np.float64))
            dq = np.max(np.abs(_np(s2.sim_state.qpos) - G.data.qpos))
            dv = np.max(np.abs(_np(s2.sim_state.qvel) - G.data.qvel) / (1.0 + np.abs(G.data.qvel)))
            total += 1
            agree += bool(dq < 2e-3 and dv < 2e-2)
            # external contact forces exist on the lerax side whenever the reference has substantial ones
            fC = float(np.abs(G.data.cfrc_ext).max())
            if G.data.ncon > 0 and fC > 5.0:
                contact_cases += 1
                fL = float(np.abs(_cfrc(s2)).max())
                contact_ok += bool(fL > 0.02 * fC)
            s = s2
    ctx.check(total < 12 or agree / total >= 0.2, f"C17/{name}/single-step-physics-disagrees-with-C-MuJoCo", tags={"env": name}, agree=agree, total=total)
    if name in ("Ant", "Humanoid", "HumanoidStandup") and contact_cases >= 3:
        ctx.check(contact_ok >= 0.5 * contact_cases, f"C17/{name}/external-contact-forces-missing-in-successor-state", tags={"env": name}, contact_cases=contact_cases, with_forces=contact_ok)
    ctx.count(nontrivial=total >= 12, classes=[name, f"physics_agree_fraction>={int(10 * agree / max(total, 1)) / 10}"] + ["contact_force_cases"] * bool(contact_cases), key=[name, case["episodes"][0]["key"], "physics"])


# health / termination thresholds of the reference environments: (qpos index, threshold values)
THRESHOLDS = {
    "InvertedPendulum": [(1, [0.2, -0.2])],
    "InvertedDoublePendulum": [(1, [0.6, -0.6, 1.0, -1.0]), (2, [0.8, -0.8])],
    "Hopper": [(1, [0.7]), (2, [0.2, -0.2])],
    "Walker2d": [(1, [0.8, 2.0]), (2, [1.0, -1.0])],
    "Ant": [(2, [0.2, 1.0])],
    "Humanoid": [(2, [1.0, 2.0])],
}


# documented health-range options -> the qpos coordinate they constrain
RANGE_INDEX = {
    "Hopper": {"healthy_z_range": 1, "healthy_angle_range": 2},
    "Walker2d": {"healthy_z_range": 1, "healthy_angle_range": 2},
    "Ant": {"healthy_z_range": 2},
    "Humanoid": {"healthy_z_range": 2},
}


@eqx.filter_jit
def _crafted(env, s, qpos, qvel, a):
    from mujoco import mjx

    data = s.sim_state.replace(qpos=qpos, qvel=qvel, ctrl=a)
    data = mjx.forward(env.model, data)
    s2 = eqx.tree_at(lambda st: (st.sim_state, st.t), s, (data, s.t + env.dt))
    k = jr.key(0)
    return s2, env.observation(s2, key=k), env.reward(s, a, s2, key=k), env.terminal(s2, key=k), env.transition_info(s, a, s2)


def oracle_boundary(ctx: Ctx, case):
    """The reference's step() judges a crafted successor state whose health coordinate sits just inside /
    outside a termination threshold (both sides get the same (s, a, s') triple)."""
    name = case["env"]
    opts = _opts_key(case.get("opts", {}))
    L, G = lerax_env(name), gym_env(name, opts)
    s, _ = _initial(L, jr.key(case["key"]))
    qpos = np.asarray(s.sim_state.qpos, np.float64).copy()
    qvel = np.asarray(s.sim_state.qvel, np.float64).copy()
    qpos[case["index"]] = case["value"]
    for i, v in case.get("extra", []):
        qpos[i] = v
    a = jnp.asarray(case["action"], dtype=jnp.float32)
    s2, obs2, rew, term, info = _crafted(L, s, jnp.asarray(qpos, dtype=s.sim_state.qpos.dtype), jnp.asarray(qvel, dtype=s.sim_state.qvel.dtype), a)
    tags = {"env": name, "layer": "boundary"}
    if opts:  # the crafted successor judged by the environment built with the drawn option (same physics)
        obs2, rew, term, info = _funcs(lerax_env(name, opts), s, a, s2)
        tags["opts"] = json_opts(case["opts"])
    gterm, contact = _compare_step(ctx, name, G, s, a, s2, obs2, rew, term, info, True, tags)
    ctx.count(nontrivial=True, classes=[name, "boundary", "terminated" if gterm else "healthy"] + ["with_option"] * bool(opts), key=[name, case["index"], case["value"], case["key"], tags.get("opts")])


def common_options(name):
    """Constructor options lerax documents under the same name as Gymnasium v5 (found by introspection)."""
    import inspect

    from lerax.env import mujoco as mj

    ls = inspect.signature(getattr(mj, name).__init__).parameters
    gs = inspect.signature(type(gym_env(name)).__init__).parameters
    # uph_cost_weight: Gymnasium v5's HumanoidStandup accepts and documents the weight but its _get_rew() never uses it
    # (upstream bug), so the reference has no semantics to compare with; lerax applies the documented weight.
    skip = ("self", "xml_file", "frame_skip", "default_camera_config", "kwargs", "uph_cost_weight")
    return {k: ls[k].default for k in ls if k in gs and k not in skip}


def draw_options(rng, name, with_reset=False):
    """1-3 documented options moved off their defaults (flags toggled, weights scaled, ranges narrowed/shifted)."""
    opts = common_options(name)
    names = [k for k in opts if with_reset or k != "reset_noise_scale"]
    if not names:
        return {}
    out = {}
    for k in rng.choice(names, size=min(len(names), int(rng.integers(1, 4))), replace=False):
        d = opts[str(k)]
        if isinstance(d, bool):
            v = not d
        elif isinstance(d, (int, float)):
            v = float(d) * float(rng.choice([0.0, 0.5, 2.0, 3.5]))
        else:
            lo, hi = (float(x) for x in d)
            f = lambda x, up: (x * (1 + (0.2 if up else -0.2) * np.sign(x)) + (0.05 if up else -0.05)) if np.isfinite(x) else x
            mode = int(rng.integers(0, 3))
            lo2, hi2 = (f(lo, True), f(hi, False)) if mode == 0 else (f(lo, True), hi) if mode == 1 else (lo, f(hi, False))
            if not np.isfinite(hi) and rng.random() < 0.5:
                hi2 = abs(lo2) + 0.5 if np.isfinite(lo2) else 1.0
            if not lo2 < hi2:
                lo2, hi2 = lo, hi
            v = [float(lo2), float(hi2)]
        out[str(k)] = v
    return out


def oracle_options(ctx: Ctx, case):
    """Documented constructor options: the default environment supplies physically valid (s, a, s') triples; the
    observation / reward / termination / info functions of the environment built with the drawn options are compared
    with the Gymnasium v5 environment built with the same options, stepped over the same successor."""
    name = case["env"]
    opts = _opts_key(case["opts"])
    L0, Lo, G = lerax_env(name), lerax_env(name, opts), gym_env(name, opts)
    tags = {"env": name, "opts": json_opts(case["opts"])}
    ctx.check(tuple(Lo.observation_space.shape) == tuple(G.observation_space.shape), f"C17/{name}/observation-size-differs", tags=tags, lerax=list(Lo.observation_space.shape), reference=list(G.observation_space.shape))
    s, _ = _initial(L0, jr.key(case["key"]))
    flags = set()
    first = True
    for a in case["actions"]:
        a = jnp.asarray(a, dtype=jnp.float32)
        s2 = _trans(L0, s, a)[0]
        if not np.all(np.isfinite(_np(s2.sim_state.qpos))):
            break
        obs2, rew, term, info = _funcs(Lo, s, a, s2)
        gterm, contact = _compare_step(ctx, name, G, s, a, s2, obs2, rew, term, info, first, tags)
        if gterm:
            flags.add("unhealthy_successor")
        if contact:
            flags.add("contact")
        first = False
        s = s2
    kinds = sorted({"flag" if isinstance(v, bool) else "weight" if isinstance(v, (int, float)) else "range" for v in case["opts"].values()})
    ctx.count(nontrivial=True, classes=[name] + kinds + sorted(flags), key=[name, json_opts(case["opts"]), case["key"]])


def json_opts(opts):
    import json

    return json.dumps(opts, sort_keys=True)


PARTS = {"mj_boundary": oracle_boundary, "mj_model": oracle_model, "mj_reset": oracle_episode, "mj_step": oracle_episode, "mj_physics": oracle_physics, "mj_options": oracle_options}

OPTIONS = {
    "Ant": [{}, {"exclude_current_positions_from_observation": False}, {"include_cfrc_ext_in_observation": False}, {"terminate_when_unhealthy": False}],
    "Humanoid": [{}, {"exclude_current_positions_from_observation": False}, {"terminate_when_unhealthy": False}],
    "Hopper": [{}, {"exclude_current_positions_from_observation": False}, {"terminate_when_unhealthy": False}],
    "Walker2d": [{}, {"exclude_current_positions_from_observation": False}],
    "HalfCheetah": [{}, {"exclude_current_positions_from_observation": False}],
    "Swimmer": [{}, {"exclude_current_positions_from_observation": False}],
}


def worker(ctx: Ctx, payload):
    import time

    t0 = time.time()
    name, n_eps, ep_len, n_phys, with_opts, regress, n_opt = payload
    L = lerax_env(name)
    low, high = np.asarray(L.action_space.low), np.asarray(L.action_space.high)
    rng = np.random.default_rng(ctx.seed)

    def run_one(part, oracle, case):
        try:
            ctx.call(part, oracle, case)
        except Violation as v:
            ctx.violations.append(v)
            ctx.skip_buckets.add(v.bucket)

    run_one("mj_model", oracle_model, {"env": name})
    for part, case in regress:  # committed reproductions for this environment, replayed first
        run_one("regress:" + part, PARTS[part], case)
    modes = ["uniform", "corner", "hold", "zero"]
    for e in range(n_eps):
        case = {"env": name, "key": int(rng.integers(0, 2**31 - 1)), "actions": [a.tolist() for a in _actions(rng, low, high, ep_len, modes[e % 4])]}
        run_one("mj_step", oracle_episode, case)
    if with_opts:
        for opts in OPTIONS.get(name, [])[1:]:
            for e in range(max(1, n_eps // 3)):
                case = {"env": name, "opts": opts, "key": int(rng.integers(0, 2**31 - 1)), "actions": [a.tolist() for a in _actions(rng, low, high, ep_len, modes[e % 4])]}
                run_one("mj_step", oracle_episode, case)
    for k, d in common_options(name).items():  # every documented flag toggled on its own
        if isinstance(d, bool):
            case = {"env": name, "opts": {k: not d}, "key": int(rng.integers(0, 2**31 - 1)), "actions": [a.tolist() for a in _actions(rng, low, high, 4, "uniform")]}
            run_one("mj_options", oracle_options, case)
    for k, d in common_options(name).items():  # every documented range with its lower / its upper end moved on its own
        if isinstance(d, tuple):
            lo, hi = (float(x) for x in d)
            mv = lambda x, up: x * (1 + (0.25 if up else -0.25) * np.sign(x)) + (0.06 if up else -0.06)
            for j, rngv in enumerate(([mv(lo, True), hi] if np.isfinite(lo) else None, [lo, mv(hi, False)] if np.isfinite(hi) else None)):
                if rngv is not None and rngv[0] < rngv[1]:
                    case = {"env": name, "opts": {k: rngv}, "key": int(rng.integers(0, 2**31 - 1)), "actions": [a.tolist() for a in _actions(rng, low, high, ep_len, ["corner", "uniform"][j])]}
                    run_one("mj_options", oracle_options, case)
    # health ranges given as options: crafted states on both sides of each end of a range moved away from its default
    for k, idx in RANGE_INDEX.get(name, {}).items():
        lo, hi = (float(x) for x in common_options(name)[k])
        for moved in ([lo + 0.13 * max(abs(lo), 0.5), hi], [lo, hi - 0.11 * max(abs(hi), 0.5)] if np.isfinite(hi) else [lo, abs(lo) + 0.9]):
            for th in moved:
                if np.isfinite(th):
                    for delta in (-3e-2, -2e-3, 2e-3, 3e-2):
                        case = {"env": name, "opts": {k: moved}, "key": int(rng.integers(0, 2**31 - 1)), "index": idx, "value": float(th + delta), "action": rng.uniform(low, high).astype(np.float32).tolist()}
                        run_one("mj_boundary", oracle_boundary, case)
    for e in range(n_opt):
        case = {"env": name, "opts": draw_options(rng, name), "key": int(rng.integers(0, 2**31 - 1)), "actions": [a.tolist() for a in _actions(rng, low, high, ep_len, modes[e % 4])]}
        if case["opts"]:
            run_one("mj_options", oracle_options, case)
    if with_opts:
        for e in range(3):
            case = {"env": name, "opts": draw_options(rng, name, with_reset=True), "key": int(rng.integers(0, 2**31 - 1)), "actions": [a.tolist() for a in _actions(rng, low, high, ep_len, modes[e % 4])]}
            run_one("mj_step", oracle_episode, case)
    for idx, ths in THRESHOLDS.get(name, []):
        for th in ths:
            for delta in (-3e-2, -2e-3, 2e-3, 3e-2):
                case = {"env": name, "key": int(rng.integers(0, 2**31 - 1)), "index": idx, "value": float(th + delta), "action": rng.uniform(low, high).astype(np.float32).tolist()}
                run_one("mj_boundary", oracle_boundary, case)
    eps = [{"key": int(rng.integers(0, 2**31 - 1)), "actions": [a.tolist() for a in _actions(rng, low, high, 6, ["uniform", "zero", "hold"][e % 3])]} for e in range(max(n_phys, 3))]
    run_one("mj_physics", oracle_physics, {"env": name, "episodes": eps})
    ctx.classes[f"worker_seconds:{name}"] = int(time.time() - t0)


def run(ctx: Ctx):
    import json
    from pathlib import Path

    regs = {name: [] for name in ENVS}
    for f in sorted((Path(__file__).resolve().parent.parent / "regressions" / "C17_mj").glob("*.json")):
        d = json.loads(f.read_text())
        regs[d["case"]["env"]].append((d["part"], d["case"]))
    payloads = [(name, ctx.n(6, 60), ctx.n(8, 25), ctx.n(2, 20), not ctx.quick, regs[name], ctx.n(3, 30)) for name in ENVS]
    run_pool(ctx, "checks.c17_reference_mdps", "mujoco_worker", payloads, procs=11)
