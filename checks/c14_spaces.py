"""C14 — spaces: exact membership, member samples, coherent equality."""

from __future__ import annotations

import copy
import math
from collections import OrderedDict

import jax
import numpy as np
from hypothesis import strategies as st
from jax import numpy as jnp
from jax import random as jr

from lerax.space import Box, Dict, Discrete, MultiBinary, MultiDiscrete, Tuple
from vlib.runner import Ctx

F32 = np.float32
TINY = float(np.finfo(F32).tiny)


# ----------------------------------------------------------------------------- descriptors <-> spaces
def build(d):
    k = d["kind"]
    if k == "box":
        return Box(np.asarray(d["low"], F32), np.asarray(d["high"], F32))
    if k == "discrete":
        return Discrete(d["n"])
    if k == "multibinary":
        return MultiBinary(d["n"] if isinstance(d["n"], int) else tuple(d["n"]))
    if k == "multidiscrete":
        return MultiDiscrete(tuple(d["nvec"]))
    if k == "dict":
        return Dict(OrderedDict((key, build(v)) for key, v in d["items"]))
    return Tuple(tuple(build(v) for v in d["items"]))


def desc_equal(a, b) -> bool:
    """Equal structure and parameters (numerically: -0.0 == 0.0, shapes included)."""
    if a["kind"] != b["kind"]:
        return False
    k = a["kind"]
    if k == "box":
        la, lb = np.asarray(a["low"], F32), np.asarray(b["low"], F32)
        ha, hb = np.asarray(a["high"], F32), np.asarray(b["high"], F32)
        return la.shape == lb.shape and bool(np.array_equal(la, lb)) and bool(np.array_equal(ha, hb))
    if k == "discrete":
        return a["n"] == b["n"]
    if k == "multibinary":
        sa = (a["n"],) if isinstance(a["n"], int) else tuple(a["n"])
        sb = (b["n"],) if isinstance(b["n"], int) else tuple(b["n"])
        return sa == sb
    if k == "multidiscrete":
        return tuple(a["nvec"]) == tuple(b["nvec"])
    if k == "dict":
        return len(a["items"]) == len(b["items"]) and all(ka == kb and desc_equal(va, vb) for (ka, va), (kb, vb) in zip(a["items"], b["items"]))
    return len(a["items"]) == len(b["items"]) and all(desc_equal(x, y) for x, y in zip(a["items"], b["items"]))


def depth(d):
    return 1 + max((depth(v[1] if d["kind"] == "dict" else v) for v in d.get("items", [])), default=0) if d["kind"] in ("dict", "tuple") else 0


# ----------------------------------------------------------------------------- candidates
def to_value(c):
    t = c["t"]
    if t == "array":
        return np.asarray(c["v"], dtype=c["dtype"])
    if t == "jarray":
        return jnp.asarray(np.asarray(c["v"], dtype=c["dtype"]))
    if t == "none":
        return None
    if t == "str":
        return "left"
    if t == "object":
        return object()
    if t == "ragged":
        return [[1.0, 2.0], [3.0]]
    if t == "odict":
        return OrderedDict((k, to_value(v)) for k, v in c["items"])
    if t == "tuple":
        return tuple(to_value(v) for v in c["items"])
    raise ValueError(t)


def member(d, c) -> bool:
    """Reference membership predicate, written from the statement."""
    k, t = d["kind"], c["t"]
    if k in ("box", "discrete", "multibinary", "multidiscrete"):
        if t not in ("array", "jarray"):
            return False
        x = np.asarray(c["v"], dtype=c["dtype"])
        if np.issubdtype(x.dtype, np.floating) and np.isnan(x).any():
            return False
        if k == "box":
            low, high = np.asarray(d["low"], F32), np.asarray(d["high"], F32)
            return x.shape == low.shape and bool(np.all(x >= low) and np.all(x <= high))
        if k == "discrete":
            return x.shape == () and float(x) == math.floor(float(x)) and 0 <= float(x) < d["n"]
        if k == "multibinary":
            shape = (d["n"],) if isinstance(d["n"], int) else tuple(d["n"])
            return x.shape == shape and bool(np.all((x == 0) | (x == 1)))
        nvec = np.asarray(d["nvec"])
        return x.shape == nvec.shape and bool(np.all(x == np.floor(x)) and np.all(x >= 0) and np.all(x < nvec))
    if k == "dict":
        if t != "odict":
            return False
        keys = [key for key, _ in d["items"]]
        if sorted(keys) != sorted(kk for kk, _ in c["items"]) or len(c["items"]) != len(keys):
            return False
        cm = dict(c["items"])
        return all(member(v, cm[key]) for key, v in d["items"])
    if t != "tuple" or len(c["items"]) != len(d["items"]):
        return False
    return all(member(v, ci) for v, ci in zip(d["items"], c["items"]))


def _ulp_out(v, up):
    """Next float32 outside the bound; subnormals are avoided because XLA:CPU flushes them to
    zero (a platform property, not a lerax one)."""
    out = float(np.nextafter(F32(v), F32(np.inf if up else -np.inf)))
    if abs(out) < TINY:
        out = TINY if up else -TINY
    return out


@st.composite
def a_member(draw, d, boundary=False):
    k = d["kind"]
    if k == "box":
        low, high = np.asarray(d["low"], F32), np.asarray(d["high"], F32)
        flat = []
        for lo, hi in zip(low.reshape(-1), high.reshape(-1)):
            lo_f = float(lo) if np.isfinite(lo) else (float(hi) - 10.0 if np.isfinite(hi) else -10.0)
            hi_f = float(hi) if np.isfinite(hi) else (float(lo) + 10.0 if np.isfinite(lo) else 10.0)
            if boundary:
                v = draw(st.sampled_from([lo_f, hi_f]))
            else:
                v = float(F32(draw(st.floats(lo_f, hi_f, allow_nan=False))))
                v = min(max(v, float(F32(lo_f))), float(F32(hi_f)))
            flat.append(v)
        return {"t": draw(st.sampled_from(["array", "jarray"])), "v": np.asarray(flat, F32).reshape(low.shape).tolist(), "dtype": "float32"}
    if k == "discrete":
        v = draw(st.sampled_from([0, d["n"] - 1])) if boundary else draw(st.integers(0, d["n"] - 1))
        return {"t": draw(st.sampled_from(["array", "jarray"])), "v": v, "dtype": draw(st.sampled_from(["int32", "float32"]))}
    if k == "multibinary":
        shape = (d["n"],) if isinstance(d["n"], int) else tuple(d["n"])
        n = int(np.prod(shape))
        bits = [draw(st.integers(0, 1)) for _ in range(n)]
        return {"t": "array", "v": np.asarray(bits).reshape(shape).tolist(), "dtype": draw(st.sampled_from(["int32", "bool", "float32"]))}
    if k == "multidiscrete":
        vals = [draw(st.sampled_from([0, n - 1])) if boundary else draw(st.integers(0, n - 1)) for n in d["nvec"]]
        return {"t": "array", "v": vals, "dtype": draw(st.sampled_from(["int32", "float32"]))}
    if k == "dict":
        return {"t": "odict", "items": [[key, draw(a_member(v, boundary))] for key, v in d["items"]]}
    return {"t": "tuple", "items": [draw(a_member(v, boundary)) for v in d["items"]]}


@st.composite
def a_near_miss(draw, d):
    """A member with exactly one thing wrong (may occasionally still be a member: the oracle decides)."""
    k = d["kind"]
    c = draw(a_member(d))
    if k == "box":
        low, high = np.asarray(d["low"], F32), np.asarray(d["high"], F32)
        x = np.asarray(c["v"], F32)
        how = draw(st.sampled_from(["ulp_low", "ulp_high", "nan", "shape", "far"]))
        if x.size and how in ("ulp_low", "ulp_high", "nan", "far"):
            i = draw(st.integers(0, x.size - 1))
            f = x.reshape(-1).copy()
            if how == "ulp_low" and np.isfinite(low.reshape(-1)[i]):
                f[i] = _ulp_out(low.reshape(-1)[i], False)
            elif how == "ulp_high" and np.isfinite(high.reshape(-1)[i]):
                f[i] = _ulp_out(high.reshape(-1)[i], True)
            elif how == "nan":
                f[i] = np.nan
            elif how == "far" and np.isfinite(high.reshape(-1)[i]):
                f[i] = float(high.reshape(-1)[i]) + 1.0
            c["v"] = f.reshape(x.shape).tolist()
        else:
            c["v"] = np.zeros(x.shape + (1,), F32).tolist() if draw(st.booleans()) else np.zeros((x.size + 1,), F32).tolist()
        return c
    if k == "discrete":
        how = draw(st.sampled_from(["neg", "n", "frac", "nan", "vector"]))
        c["dtype"] = "float32" if how in ("frac", "nan") else c["dtype"]
        c["v"] = {"neg": -1, "n": d["n"], "frac": 0.5, "nan": float("nan"), "vector": [0]}[how]
        return c
    if k == "multibinary":
        x = np.asarray(c["v"])
        how = draw(st.sampled_from(["two", "neg", "shape", "half"]))
        if how == "shape":
            c["v"] = np.zeros(x.shape[:-1] + (x.shape[-1] + 1,), int).tolist()
            c["dtype"] = "int32"
            return c
        f = x.reshape(-1).astype(float)
        i = draw(st.integers(0, f.size - 1))
        f[i] = {"two": 2, "neg": -1, "half": 0.5}[how]
        c["v"], c["dtype"] = f.reshape(x.shape).tolist(), "float32"
        return c
    if k == "multidiscrete":
        x = np.asarray(c["v"], float)
        how = draw(st.sampled_from(["neg", "n", "frac", "shape", "neg_big"]))
        if how == "shape":
            c["v"] = x.tolist() + [0]
            return c
        i = draw(st.integers(0, x.size - 1))
        x[i] = {"neg": -1, "n": d["nvec"][i], "frac": 0.5, "neg_big": -7}[how]
        c["v"] = x.tolist()
        c["dtype"] = "float32" if how == "frac" else "int32"
        return c
    if k == "dict":
        how = draw(st.sampled_from(["inner", "missing", "extra", "inner"]))
        if how == "inner":
            i = draw(st.integers(0, len(d["items"]) - 1))
            c["items"][i][1] = draw(a_near_miss(d["items"][i][1]))
        elif how == "missing":
            c["items"].pop()
        else:
            c["items"].append(["zz_extra", {"t": "array", "v": 0, "dtype": "int32"}])
        return c
    how = draw(st.sampled_from(["inner", "short", "long", "inner"]))
    if how == "inner":
        i = draw(st.integers(0, len(d["items"]) - 1))
        c["items"][i] = draw(a_near_miss(d["items"][i]))
    elif how == "short":
        c["items"].pop()
    else:
        c["items"].append({"t": "array", "v": 0, "dtype": "int32"})
    return c


def _no_subnormal(x):
    x = float(F32(x))
    return 0.0 if abs(x) < TINY else x  # XLA:CPU flushes subnormals to zero; bounds are kept normal


_bound = st.one_of(st.sampled_from([0.0, -0.0, 1.0, -1.0, 2.5]), st.floats(-100, 100, allow_nan=False).map(_no_subnormal))


@st.composite
def box_desc(draw):
    shape = draw(st.sampled_from([(), (1,), (3,), (2, 3)]))
    n = int(np.prod(shape)) if shape else 1
    lows, highs = [], []
    for _ in range(n):
        lo = draw(st.one_of(_bound, st.just(float("-inf"))))
        mode = draw(st.sampled_from(["wide", "wide", "equal", "inf"]))
        if mode == "inf":
            hi = float("inf")
        elif mode == "equal" and np.isfinite(lo):
            hi = lo
        else:
            base = lo if np.isfinite(lo) else draw(_bound)
            hi = _no_subnormal(base + draw(st.floats(0.01, 50, allow_nan=False)))
        lows.append(lo)
        highs.append(hi)
    return {"kind": "box", "low": np.asarray(lows, F32).reshape(shape).tolist(), "high": np.asarray(highs, F32).reshape(shape).tolist()}


def space_desc(max_depth=3):
    leaf = st.one_of(
        box_desc(),
        st.builds(lambda n: {"kind": "discrete", "n": n}, st.integers(1, 9)),
        st.builds(lambda n: {"kind": "multibinary", "n": n}, st.one_of(st.integers(1, 4), st.sampled_from([[2, 3], [1, 2], [3, 1, 2]]))),
        st.builds(lambda nv: {"kind": "multidiscrete", "nvec": nv}, st.lists(st.integers(1, 5), min_size=1, max_size=4)),
    )

    def extend(children):
        keys = st.lists(st.sampled_from(["a", "b", "c", "pos", "id", "z"]), min_size=1, max_size=3, unique=True)
        return st.one_of(
            st.builds(lambda ks, vs: {"kind": "dict", "items": [[k, v] for k, v in zip(ks, vs)]}, keys, st.lists(children, min_size=3, max_size=3)),
            st.builds(lambda vs: {"kind": "tuple", "items": vs}, st.lists(children, min_size=1, max_size=3)),
        )

    return st.recursive(leaf, extend, max_leaves=6)


# ----------------------------------------------------------------------------- oracles
def _contains(ctx, sp, d, c, where):
    x = to_value(c)
    exp = member(d, c)
    tags = {"kind": d["kind"]}
    try:
        got = sp.contains(x)
    except Exception as exc:  # the statement: malformed / foreign values are rejected, not raised on
        ctx.fail(f"C14/contains-raises/{d['kind']}/{type(exc).__name__}", tags=tags, candidate=c, expected=exp, error=str(exc)[:200])
        return
    arr = np.asarray(got)
    if arr.shape != () or arr.dtype != np.bool_:
        ctx.fail(f"C14/contains-not-a-scalar-boolean/{d['kind']}", tags=tags, candidate=c, shape=list(arr.shape), dtype=str(arr.dtype))
        return
    if bool(arr) != exp:
        ctx.fail(f"C14/contains-wrong/{d['kind']}/{'accepts-non-member' if not exp else 'rejects-member'}/{where}", tags=tags, space=d, candidate=c, expected=exp)
    try:
        got_in = x in sp
    except Exception as exc:
        ctx.fail(f"C14/in-operator-raises/{d['kind']}/{type(exc).__name__}", tags=tags, candidate=c, error=str(exc)[:200])
        return
    ctx.check(got_in == exp, f"C14/in-operator-disagrees/{d['kind']}", tags=tags, candidate=c)


def _as_candidate(d, x):
    """Encode a lerax-produced sample as a candidate descriptor."""
    k = d["kind"]
    if k == "dict":
        if not isinstance(x, OrderedDict):
            return {"t": "object"}
        return {"t": "odict", "items": [[key, _as_candidate(dict(d["items"])[key], v)] for key, v in x.items() if key in dict(d["items"])] + [[key, {"t": "object"}] for key in x if key not in dict(d["items"])]}
    if k == "tuple":
        if not isinstance(x, tuple) or len(x) != len(d["items"]):
            return {"t": "object"}
        return {"t": "tuple", "items": [_as_candidate(di, xi) for di, xi in zip(d["items"], x)]}
    a = np.asarray(x)
    return {"t": "array", "v": a.tolist(), "dtype": str(a.dtype) if a.dtype != np.dtype("O") else "float32"}


def oracle_membership(ctx: Ctx, case):
    d = case["space"]
    sp = build(d)
    for where in ("member", "boundary", "near_miss", "foreign"):
        for c in case[where]:
            _contains(ctx, sp, d, c, where)
    # samples and canonical element are members (by the reference predicate)
    for j in range(3):
        x = sp.sample(key=jr.key(case["key"] + j))
        c = _as_candidate(d, x)
        ctx.check(member(d, c), f"C14/sample-not-a-member/{d['kind']}", tags={"kind": d["kind"]}, space=d, sample=c)
        ctx.check(bool(sp.contains(x)) if d["kind"] not in () else True, f"C14/sample-rejected-by-contains/{d['kind']}", tags={"kind": d["kind"]}, sample=c)
    can = sp.canonical()
    cc = _as_candidate(d, can)
    ctx.check(member(d, cc), f"C14/canonical-not-a-member/{d['kind']}", tags={"kind": d["kind"]}, space=d, canonical=cc)
    # flatten_sample: flat_size numbers that determine the sample
    m1, m2 = to_value(case["member"][0]), to_value(case["member"][1])
    f1, f2 = np.asarray(sp.flatten_sample(jax.tree.map(jnp.asarray, m1))), np.asarray(sp.flatten_sample(jax.tree.map(jnp.asarray, m2)))
    ctx.check(f1.shape == (sp.flat_size,) and f1.ndim == 1, f"C14/flatten-size/{d['kind']}", shape=list(f1.shape), flat_size=int(sp.flat_size))
    same_val = _same_value(case["member"][0], case["member"][1])
    if not same_val:
        ctx.check(not np.array_equal(f1, f2), f"C14/flatten-not-injective/{d['kind']}", a=case["member"][0], b=case["member"][1])
    # the same key -> value mapping written in another insertion order: if the space accepts it as a member, it is the same
    # sample and must flatten to the same numbers
    r1 = _reordered(m1)
    reordered = r1 is not None
    if reordered and bool(sp.contains(jax.tree.map(jnp.asarray, r1))):
        fr = np.asarray(sp.flatten_sample(jax.tree.map(jnp.asarray, r1)))
        ctx.check(fr.shape == f1.shape and np.array_equal(fr, f1, equal_nan=True), f"C14/flatten-depends-on-the-samples-key-order/{d['kind']}", a=case["member"][0])
    nested = depth(d) >= 2
    ctx.count(nontrivial=True, classes=[d["kind"], f"depth={depth(d)}"] + ["nested2"] * nested + ["reordered_member"] * reordered, key=[d, case["near_miss"]])


def _reordered(v):
    """v with every mapping's insertion order reversed (None if v holds no mapping with >= 2 keys)."""
    changed = [False]

    def rec(x):
        if isinstance(x, dict):
            items = [(k, rec(val)) for k, val in x.items()]
            if len(items) >= 2:
                changed[0] = True
            return type(x)(reversed(items))
        if isinstance(x, tuple):
            return tuple(rec(y) for y in x)
        return x

    out = rec(v)
    return out if changed[0] else None


def _same_value(a, b):
    arr = ("array", "jarray")
    if a["t"] != b["t"] and not (a["t"] in arr and b["t"] in arr):
        return False
    if a["t"] in arr:
        return np.array_equal(np.asarray(a["v"], float), np.asarray(b["v"], float))
    if a["t"] == "odict":
        return all(_same_value(x[1], y[1]) for x, y in zip(a["items"], b["items"]))
    return all(_same_value(x, y) for x, y in zip(a["items"], b["items"]))


def oracle_discrete_mask(ctx: Ctx, case):
    sp = Discrete(case["n"])
    mask = np.asarray(case["mask"], bool)
    seen = set()
    for j in range(24):
        x = int(sp.sample(key=jr.key(case["key"] + j), mask=jnp.asarray(mask)))
        ctx.check(0 <= x < case["n"] and bool(mask[x]), "C14/masked-sample-not-allowed", n=case["n"], mask=case["mask"], sample=x)
        seen.add(x)
    ctx.count(nontrivial=int(mask.sum()) < case["n"], classes=[f"allowed={int(mask.sum())}"], key=[case["n"], case["mask"]])


def oracle_equality(ctx: Ctx, case):
    da, db = case["a"], case["b"]
    a, b = build(da), build(db)
    exp = desc_equal(da, db)
    tags = {"relation": case["relation"]}
    # the same key->space mapping in another insertion order: the statement does not say whether
    # that is "equal structure"; only symmetry and hash agreement are demanded there
    open_question = case["relation"] == "reordered"
    gots = []
    for x, y, dx, dy in ((a, b, da, db), (b, a, db, da)):
        try:
            got = x == y
        except Exception as exc:
            ctx.fail(f"C14/eq-raises/{dx['kind']}/{type(exc).__name__}", tags=tags, a=dx, b=dy, error=str(exc)[:200])
            return
        gots.append(bool(got))
        if open_question:
            continue
        if bool(got) != exp:
            ctx.fail(f"C14/eq-wrong/{dx['kind']}/{'unequal-spaces-compare-equal' if not exp else 'equal-spaces-compare-unequal'}/{case['relation']}", tags=tags, a=dx, b=dy, expected=exp)
            return
    hs = []
    for x, dx in ((a, da), (b, db)):
        try:
            hs.append(hash(x))
        except Exception as exc:
            ctx.fail(f"C14/hash-raises/{dx['kind']}/{type(exc).__name__}", tags=tags, space=dx, error=str(exc)[:200])
            return
    ctx.check(gots[0] == gots[1], f"C14/eq-not-symmetric/{da['kind']}", tags=tags, a=da, b=db)
    if exp or (open_question and gots[0]):
        ctx.check(hs[0] == hs[1], f"C14/equal-spaces-hash-differently/{da['kind']}", tags=tags, a=da, b=db)
    ctx.count(nontrivial=case["relation"] in ("perturbed", "extended", "zero_sign", "reordered", "swapped"), classes=[case["relation"], da["kind"]], key=[da, db])


def oracle_gym_roundtrip(ctx: Ctx, case):
    from lerax.compatibility.gym import gym_space_to_lerax_space, lerax_to_gym_space

    d = case["space"]
    a = build(d)
    try:
        g = lerax_to_gym_space(a)
        back = gym_space_to_lerax_space(g)
    except Exception as exc:
        ctx.fail(f"C14/gym-roundtrip-raises/{type(exc).__name__}", space=d, error=str(exc)[:300])
        return

    def reorder(dd, gg):
        if dd["kind"] == "dict":
            items = dict(dd["items"])
            return {"kind": "dict", "items": [[k, reorder(items[k], gg.spaces[k])] for k in gg.spaces.keys()]}
        if dd["kind"] == "tuple":
            return {"kind": "tuple", "items": [reorder(x, y) for x, y in zip(dd["items"], gg.spaces)]}
        return dd

    exp_d = reorder(d, g)
    exp = build(exp_d)
    ctx.check(back == exp and exp == back, "C14/gym-roundtrip-not-equal", space=d, expected=exp_d, got=repr(back)[:300])
    ctx.count(nontrivial=depth(d) >= 1, classes=[d["kind"], f"depth={depth(d)}"], key=d)


PARTS = {"membership": oracle_membership, "discrete_mask": oracle_discrete_mask, "equality": oracle_equality, "gym_roundtrip": oracle_gym_roundtrip}


# ----------------------------------------------------------------------------- strategies
@st.composite
def membership_cases(draw):
    d = draw(space_desc())
    foreign = [{"t": t} for t in draw(st.lists(st.sampled_from(["none", "str", "object", "ragged"]), min_size=1, max_size=2, unique=True))]
    return {
        "space": d,
        "member": [draw(a_member(d)), draw(a_member(d))],
        "boundary": [draw(a_member(d, boundary=True))],
        "near_miss": [draw(a_near_miss(d)) for _ in range(3)],
        "foreign": foreign,
        "key": draw(st.integers(0, 2**31 - 10)),
    }


def _perturb(draw, d):
    d = copy.deepcopy(d)
    k = d["kind"]
    if k == "box":
        low = np.asarray(d["low"], F32)
        f = low.reshape(-1).copy()
        i = draw(st.integers(0, f.size - 1))
        f[i] = f[i] - 1.0 if np.isfinite(f[i]) else -5.0
        d["low"] = f.reshape(low.shape).tolist()
    elif k == "discrete":
        d["n"] += 1
    elif k == "multibinary":
        d["n"] = d["n"] + 1 if isinstance(d["n"], int) else list(d["n"]) + [2]
    elif k == "multidiscrete":
        d["nvec"] = list(d["nvec"])
        d["nvec"][draw(st.integers(0, len(d["nvec"]) - 1))] += 1
    elif k == "dict":
        i = draw(st.integers(0, len(d["items"]) - 1))
        d["items"][i][1] = _perturb(draw, d["items"][i][1])
    else:
        i = draw(st.integers(0, len(d["items"]) - 1))
        d["items"][i] = _perturb(draw, d["items"][i])
    return d


@st.composite
def equality_cases(draw):
    a = draw(space_desc())
    rel = draw(st.sampled_from(["copy", "perturbed", "extended", "independent", "zero_sign", "reordered", "swapped"]))
    if rel == "copy":
        b = copy.deepcopy(a)
    elif rel == "perturbed":
        b = _perturb(draw, a)
    elif rel == "extended":
        if a["kind"] not in ("dict", "tuple"):
            a = {"kind": draw(st.sampled_from(["dict", "tuple"])), "items": None, "_inner": a}
            inner = a.pop("_inner")
            a["items"] = [["a", inner]] if a["kind"] == "dict" else [inner]
        b = copy.deepcopy(a)
        extra = draw(space_desc())
        if draw(st.booleans()):
            (b if draw(st.booleans()) else a)["items"].append(["zz", extra] if a["kind"] == "dict" else extra)
        else:
            b["items"].append(["zz", extra] if a["kind"] == "dict" else extra)
    elif rel == "zero_sign":
        a = {"kind": "box", "low": [0.0, -1.0], "high": [1.0, 0.0]}
        b = {"kind": "box", "low": [-0.0, -1.0], "high": [1.0, -0.0]}
    elif rel == "reordered":
        inner = [draw(space_desc()) for _ in range(2)]
        inner[1] = _perturb(draw, inner[0]) if draw(st.booleans()) else inner[1]
        a = {"kind": "dict", "items": [["a", inner[0]], ["b", inner[1]]]}
        b = {"kind": "dict", "items": [["b", inner[1]], ["a", inner[0]]]}
    elif rel == "swapped":
        # same key set, same sub-spaces by position, but the keys map to different sub-spaces
        x = draw(space_desc())
        y = _perturb(draw, x)
        a = {"kind": "dict", "items": [["a", x], ["b", y]]}
        b = {"kind": "dict", "items": [["b", x], ["a", y]]}
        if draw(st.booleans()):
            a, b = {"kind": "tuple", "items": [a]}, {"kind": "tuple", "items": [b]}
    else:
        b = draw(space_desc())
    return {"a": a, "b": b, "relation": rel}


@st.composite
def mask_cases(draw):
    n = draw(st.integers(1, 9))
    mask = draw(st.lists(st.booleans(), min_size=n, max_size=n))
    if not any(mask):
        mask[draw(st.integers(0, n - 1))] = True
    return {"n": n, "mask": mask, "key": draw(st.integers(0, 2**31 - 100))}


def run(ctx: Ctx):
    ctx.rule = (
        "Recursive strategy for spaces (Box with per-element bounds incl. +-inf, low==high, -0.0; Discrete; MultiBinary int/tuple "
        "shapes; MultiDiscrete; Dict/Tuple nesting), candidates = constructed members, boundary members, near-misses (one ulp / "
        "one unit / negative / n / fractional / NaN / wrong shape / missing or extra component) and foreign objects; contains / "
        "`in` vs a pure-Python membership predicate (scalar boolean, never raises); sample/canonical are members, masked Discrete "
        "samples allowed, flatten_sample size and injectivity; ==/hash on copy / one-parameter-perturbed / extended / zero-sign / "
        "reordered / independent pairs vs structural equality; Gymnasium round trip. Non-trivial: every membership case carries "
        "near-misses; equality pairs differing in one parameter or a trailing component."
    )
    ctx.assumptions = ["membership predicate `member` in this file is the statement's definition", "Python bool for Discrete and plain dict/list for Dict/Tuple are not generated (ambiguous)"]
    ctx.run_given("membership", membership_cases(), oracle_membership, ctx.n(700, 20000))
    ctx.run_given("discrete_mask", mask_cases(), oracle_discrete_mask, ctx.n(60, 1500))
    ctx.run_given("equality", equality_cases(), oracle_equality, ctx.n(700, 20000))
    ctx.run_given("gym_roundtrip", space_desc().map(lambda d: {"space": d}), oracle_gym_roundtrip, ctx.n(300, 8000))
    ctx.require_fraction("membership", "nested2", 0.03)
