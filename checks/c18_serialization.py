"""C18 — saving and loading a policy restores it exactly or fails loudly."""

from __future__ import annotations

import os
import shutil
import tempfile
from collections import OrderedDict

import jax
import numpy as np

import equinox as eqx
from hypothesis import strategies as st
from jax import numpy as jnp
from jax import random as jr

from lerax.policy import MLPActorCriticPolicy, MLPQPolicy, MLPSACPolicy
from lerax.space import Box, Dict, Discrete, MultiBinary, MultiDiscrete, Tuple
from vlib.runner import Ctx


class _Env(eqx.Module):
    action_space: object
    observation_space: object


def obs_space(kind, dim):
    if kind == "box":
        return Box(-jnp.ones(dim), jnp.ones(dim))
    if kind == "discrete":
        return Discrete(dim + 1)
    if kind == "dict":
        # keys deliberately not in sorted order: the declared (insertion) order is what flatten_sample follows
        return Dict(OrderedDict(vel=Box(-jnp.ones(dim), jnp.ones(dim)), pos=Box(-2 * jnp.ones(2), jnp.ones(2)), contact=Discrete(3)))
    if kind == "multibinary":
        return MultiBinary((dim, 2)) if dim > 1 else MultiBinary(3)
    if kind == "multidiscrete":
        return MultiDiscrete(tuple(range(2, 3 + dim)))
    if kind == "mixed":
        return Tuple((MultiBinary(dim + 1), Dict(OrderedDict(z=MultiDiscrete((3, 2)), a=Box(-jnp.ones(dim), jnp.ones(dim))))))
    return Tuple((Discrete(4), Box(-jnp.ones((dim, 2)), jnp.ones((dim, 2)))))


def act_space(kind, dim):
    if kind == "discrete":
        return Discrete(dim + 1)
    if kind == "box_scalar":
        return Box(-1.0, 2.0)
    if kind == "box_vec":
        return Box(-jnp.ones(dim), 2 * jnp.ones(dim))
    if kind == "multibinary":
        return MultiBinary(dim)
    return MultiDiscrete(tuple(range(2, 2 + dim)))


def build(spec, key):
    env = _Env(act_space(spec["act_kind"], spec["act_dim"]), obs_space(spec["obs_kind"], spec["obs_dim"]))
    cls = {"ac": MLPActorCriticPolicy, "q": MLPQPolicy, "sac": MLPSACPolicy}[spec["cls"]]
    kw = dict(spec["arch"])
    return cls, env, kw, cls(env, key=jr.key(key), **kw)


def perturb(policy, key):
    """Move every inexact array leaf away from its freshly initialised value."""
    leaves, treedef = jax.tree.flatten(policy)
    ks = jr.split(jr.key(key), len(leaves))
    new = [l + 0.37 * jr.normal(k, l.shape, l.dtype) if eqx.is_inexact_array(l) and "float" in str(l.dtype) else l for l, k in zip(leaves, ks)]
    return jax.tree.unflatten(treedef, new)


def array_leaves(p):
    return [np.asarray(l) for l in jax.tree.leaves(p) if eqx.is_array(l)]


def sample_obs(space, key):
    return space.sample(key=key)


def outputs(spec, policy, obs, key):
    out = []
    st0 = policy.reset(key=jr.key(0))
    out.append(policy(st0, obs)[1])
    out.append(policy(st0, obs, key=key)[1])
    if spec["cls"] == "ac":
        _, a, v, lp = policy.action_and_value(st0, obs, key=key)
        out += [a, v, lp]
        out += list(policy.evaluate_action(st0, obs, a)[1:])
    elif spec["cls"] == "q":
        out.append(policy.q_values(st0, obs)[1])
    else:
        out += list(policy.action_and_log_prob(st0, obs, key=key)[1:])
    return [np.asarray(o) for o in out]


def oracle_roundtrip(ctx: Ctx, case):
    spec = case["spec"]
    cls, env, kw, fresh = build(spec, case["key"])
    # either the object exactly as its constructor returned it, or one rebuilt by a pytree operation with moved parameters
    policy = perturb(fresh, case["key"] + 1) if case.get("perturb", True) else fresh
    tmp = tempfile.mkdtemp(prefix="lerax_c18_")
    tags = {"cls": spec["cls"]}
    try:
        rel = case["path"]
        path = os.path.join(tmp, rel)
        # history: the path may already hold an older checkpoint (same or another architecture)
        prior = case.get("prior")
        if prior == "same_arch":
            perturb(fresh, case["key"] + 99).serialize(path)
            jax.effects_barrier()
        elif prior == "other_arch":
            build(case["prior_spec"], case["key"] + 98)[3].serialize(path)
            jax.effects_barrier()
        policy.serialize(path)
        jax.effects_barrier()
        expect_file = path if path.endswith(".eqx") else path + ".eqx"
        dotted = "." in os.path.basename(rel) and not rel.endswith(".eqx")
        if not dotted:
            ctx.check(os.path.isfile(expect_file), "C18/file-not-written-with-eqx-suffix", tags=tags, path=rel, found=sorted(os.listdir(os.path.dirname(expect_file))) if os.path.isdir(os.path.dirname(expect_file)) else None)
        try:
            loaded = cls.deserialize(path, env, key=jr.key(case["key"] + 7), **kw)
        except Exception as exc:
            if dotted:
                # a name with a foreign dotted suffix is outside "with or without the .eqx suffix": failing loudly is fine
                ctx.count(nontrivial=False, classes=["dotted_name_fails_loudly"])
                return
            ctx.fail("C18/load-with-same-arguments-raises", tags=tags, path=rel, error=f"{type(exc).__name__}: {str(exc)[:200]}")
            return
        skeleton = cls(env, key=jr.key(case["key"] + 7), **kw)
        a, b, c = array_leaves(policy), array_leaves(loaded), array_leaves(skeleton)
        ctx.check(len(a) == len(b), "C18/leaf-count-changed", tags=tags, saved=len(a), loaded=len(b))
        differs_from_skeleton = 0
        for i, (x, y, z) in enumerate(zip(a, b, c)):
            ctx.check(x.dtype == y.dtype and x.shape == y.shape and x.tobytes() == y.tobytes(), "C18/parameters-not-bit-identical-after-round-trip", tags=tags, leaf=i, dtype=[str(x.dtype), str(y.dtype)], shape=[list(x.shape), list(y.shape)])
            differs_from_skeleton += int(x.size > 0 and x.tobytes() != z.tobytes())
        ctx.check(jax.tree.structure(policy) == jax.tree.structure(loaded), "C18/tree-structure-changed", tags=tags)
        # python-scalar hyper-parameters (e.g. epsilon) travel through the callback at float32 precision
        if spec["cls"] == "q":
            ctx.check(abs(float(loaded.epsilon) - float(policy.epsilon)) <= 1e-6, "C18/scalar-field-not-restored", tags=tags, saved=float(policy.epsilon), loaded=float(loaded.epsilon))
        for j in range(2):
            obs = sample_obs(env.observation_space, jr.key(case["key"] + 20 + j))
            o1, o2 = outputs(spec, policy, obs, jr.key(5 + j)), outputs(spec, loaded, obs, jr.key(5 + j))
            for u, v in zip(o1, o2):
                ctx.check(u.shape == v.shape and np.array_equal(u, v, equal_nan=True), "C18/outputs-differ-after-round-trip", tags=tags, saved=u, loaded=v)
        need = sum(1 for x in a if "float" in str(x.dtype) and x.size and (case.get("perturb", True) or x.ndim >= 2)) - 1  # fresh biases are zero in both
        ctx.count(nontrivial=differs_from_skeleton >= need, classes=["as_constructed"] * (not case.get("perturb", True)) + [spec["cls"], spec["obs_kind"], spec["act_kind"], "nested_dir" if "/" in rel else "flat", "suffix" if rel.endswith(".eqx") else "no_suffix", f"prior={prior}"], key=[spec, rel, prior])
    finally:
        shutil.rmtree(tmp, ignore_errors=True)


def oracle_mismatch(ctx: Ctx, case):
    """Loading into a policy whose parameter shapes differ must raise, never return a policy."""
    spec, other = case["spec"], case["other"]
    cls, env, kw, fresh = build(spec, case["key"])
    cls2, env2, kw2, _ = build(other, case["key"] + 3)
    tmp = tempfile.mkdtemp(prefix="lerax_c18_")
    tags = {"cls": spec["cls"], "changed": case["changed"]}
    try:
        path = os.path.join(tmp, "m.eqx")
        perturb(fresh, case["key"] + 1).serialize(path)
        jax.effects_barrier()
        shapes1 = [x.shape for x in array_leaves(fresh)]
        shapes2 = [x.shape for x in array_leaves(cls2(env2, key=jr.key(0), **kw2))]
        if shapes1 == shapes2:
            ctx.count(nontrivial=False, classes=["shapes_equal_skipped"])
            return
        try:
            loaded = cls2.deserialize(path, env2, key=jr.key(9), **kw2)
        except Exception:
            same_count = sum(int(np.prod(s)) for s in shapes1) == sum(int(np.prod(s)) for s in shapes2)
            ctx.count(nontrivial=True, classes=[spec["cls"], case["changed"]] + ["equal_param_count"] * same_count, key=[spec, other])
            return
        ctx.fail("C18/mismatching-shapes-loaded-silently", tags=tags, saved_shapes=[list(s) for s in shapes1], target_shapes=[list(s) for s in shapes2], loaded_shapes=[list(x.shape) for x in array_leaves(loaded)])
    finally:
        shutil.rmtree(tmp, ignore_errors=True)


PARTS = {"roundtrip": oracle_roundtrip, "mismatch": oracle_mismatch}


@st.composite
def specs(draw):
    cls = draw(st.sampled_from(["ac", "ac", "q", "sac"]))
    obs_kind = draw(st.sampled_from(["box", "discrete", "dict", "tuple", "multibinary", "multidiscrete", "mixed"]))
    if cls == "ac":
        act_kind = draw(st.sampled_from(["discrete", "box_scalar", "box_vec", "multibinary", "multidiscrete"]))
        arch = {
            "feature_size": draw(st.integers(1, 5)),
            "feature_width": draw(st.integers(1, 6)),
            "feature_depth": draw(st.integers(0, 2)),
            "value_width": draw(st.integers(1, 6)),
            "value_depth": draw(st.integers(0, 2)),
            "action_width": draw(st.integers(1, 6)),
            "action_depth": draw(st.integers(0, 2)),
        }
    elif cls == "q":
        act_kind = "discrete"
        arch = {"width_size": draw(st.integers(1, 6)), "depth": draw(st.integers(0, 2)), "epsilon": draw(st.sampled_from([0.1, 0.0, 0.123456789, 1.0]))}
    else:
        act_kind = draw(st.sampled_from(["box_scalar", "box_vec"]))
        arch = {"feature_size": draw(st.integers(1, 5)), "width_size": draw(st.integers(1, 6)), "depth": draw(st.integers(0, 2))}
    return {"cls": cls, "obs_kind": obs_kind, "obs_dim": draw(st.integers(1, 3)), "act_kind": act_kind, "act_dim": draw(st.integers(1, 3)), "arch": arch}


@st.composite
def roundtrip_cases(draw):
    name = draw(st.sampled_from(["x.eqx", "x", "policy", "a/b/c/x", "a/b/c/x.eqx", "run 1/model", "x.v2", "ckpt.tar.gz"]))
    prior = draw(st.sampled_from([None, None, "same_arch", "other_arch"]))
    case = {"spec": draw(specs()), "path": name, "key": draw(st.integers(0, 2**31 - 200)), "prior": prior, "perturb": draw(st.booleans())}
    if prior == "other_arch":
        case["prior_spec"] = draw(specs())
    return case


@st.composite
def mismatch_cases(draw):
    spec = draw(specs())
    ints = [k for k, v in spec["arch"].items() if isinstance(v, int) and k != "epsilon"]
    square = draw(st.booleans())
    if square:
        # all hidden layers square and of one width, only a depth differs: consecutive leaves have identical shapes, so a
        # checkpoint with more (or fewer) layers is only rejected if the loader notices missing / left-over leaves
        w = draw(st.integers(2, 5))
        for k in ints:
            if not k.endswith("depth"):
                spec["arch"][k] = w
    other = {**spec, "arch": dict(spec["arch"])}
    changed = draw(st.sampled_from([k for k in ints if k.endswith("depth")] if square else ints + ["obs_dim", "act_dim", "swap"]))
    if changed == "obs_dim":
        other["obs_dim"] = spec["obs_dim"] % 3 + 1
    elif changed == "act_dim":
        other["act_dim"] = spec["act_dim"] % 3 + 1
    elif changed == "swap" and len(ints) >= 2:
        a, b = ints[0], ints[1]
        other["arch"][a], other["arch"][b] = spec["arch"][b], spec["arch"][a]
    else:
        changed = ints[0] if changed == "swap" else changed
        other["arch"][changed] = spec["arch"][changed] + draw(st.sampled_from([1, 2]))
    if draw(st.booleans()):  # also the other direction: the checkpoint holds the larger / deeper policy
        spec, other = other, spec
        changed = changed + "-reversed"
    return {"spec": spec, "other": other, "changed": changed + ("-square" if square else ""), "key": draw(st.integers(0, 2**31 - 100))}


def run(ctx: Ctx):
    ctx.rule = (
        "Generated (policy class in {MLPActorCritic, MLPQ, MLPSAC}) x (observation space in {Box, Discrete, Dict, Tuple, MultiBinary, MultiDiscrete, nested mixes}) x (action "
        "space in {Discrete, Box scalar/vector, MultiBinary, MultiDiscrete}) x architecture arguments x perturbed weights x path "
        "spellings (with/without .eqx, nested not-yet-existing directories, spaces, paths already holding an older checkpoint of the same or another architecture; foreign dotted suffixes must at least fail "
        "loudly) in fresh temporary directories: serialize -> deserialize with the same arguments and another key => every array "
        "leaf bit-identical (dtype, shape, bytes), equal outputs; mismatch pairs (one architecture argument / observation or action "
        "dimension changed, or two arguments swapped; in both directions; also all-square layers with only a depth changed) must raise. Non-trivial: loaded leaves differ from a fresh skeleton's in "
        "every float leaf / mismatch with different leaf shapes."
    )
    ctx.assumptions = ["Python-scalar hyper-parameters are compared at float32 precision (they pass through jax.debug.callback)", "temporary directories under the system temp dir"]
    ctx.clear_caches_every = 150  # every case builds networks of new shapes
    ctx.run_given("roundtrip", roundtrip_cases(), oracle_roundtrip, ctx.n(110, 3000), shrink=False)
    ctx.run_given("mismatch", mismatch_cases(), oracle_mismatch, ctx.n(90, 2500), shrink=False)
