"""C06 — replay buffer keeps the most recent transitions and samples only stored ones."""

from __future__ import annotations

from collections import OrderedDict, deque

import jax
import numpy as np
from hypothesis import strategies as st
from hypothesis.stateful import RuleBasedStateMachine, initialize, invariant, precondition, rule
from jax import numpy as jnp
from jax import random as jr

from lerax.buffer import ReplayBuffer
from lerax.space import Box, Dict, Discrete, Tuple
from vlib.doubles import CounterState
from vlib.runner import Ctx

BIG = 1_000_000


def obs_space(kind):
    if kind == "box":
        return Box(-BIG, BIG, shape=(3,))
    if kind == "discrete":
        return Discrete(BIG)
    if kind == "dict":
        return Dict({"a": Box(-BIG, BIG, shape=(2,)), "b": Discrete(BIG)})
    if kind == "tuple":
        return Tuple((Discrete(BIG), Box(-BIG, BIG, shape=(2, 2))))
    raise ValueError(kind)


def act_space(kind):
    if kind == "discrete":
        return Discrete(BIG)
    return Box(-BIG, BIG, shape=(2,))


def encode(space, v):
    """A member of `space` all of whose leaves encode the number v."""
    if isinstance(space, Box):
        return jnp.full(space.shape, float(v))
    if isinstance(space, Discrete):
        return jnp.asarray(int(v), dtype=int)
    if isinstance(space, Dict):
        return OrderedDict((k, encode(s, v)) for k, s in space.spaces.items())
    return tuple(encode(s, v) for s in space.spaces)


def decode_all(tree, i):
    """Set of numbers encoded in row i of every leaf (and every element of that leaf)."""
    vals = set()
    for leaf in jax.tree.leaves(tree):
        a = np.asarray(leaf)[i]
        vals |= set(np.asarray(a, np.float64).reshape(-1).tolist())
    return vals


# policy-state leaves carry the insertion number on top of an offset that float32 cannot represent exactly (2**24 + 1): a
# buffer that stores policy states in another dtype than the one inserted corrupts them
BIG = 2**24 + 1


class Exec:
    """Executes a trace against ReplayBuffer and a deque model.  Row number n (n >= 1, plus an
    environment offset) is encoded as: observation leaves = 2n, next-observation leaves = 2n+1,
    action = n, reward = n, done = bit0(n), timeout = bit0(n)&bit1(n), state = n, next_state = n+1.
    Unwritten slots hold the canonical fill (0), which no row encodes."""

    def __init__(self, ctx: Ctx, C: int, obs_kind: str, act_kind: str, offset: int = 0):
        self.ctx, self.C = ctx, C
        self.osp, self.asp = obs_space(obs_kind), act_space(act_kind)
        self.buf = ReplayBuffer(C, self.osp, self.asp, CounterState(jnp.asarray(0, dtype=int)))
        self.model: deque = deque(maxlen=C)
        self.n = 0
        self.offset = offset
        self.wraps = 0
        self.samples_after_wrap = 0

    def add(self):
        self.n += 1
        n = self.n + self.offset
        self.buf = self.buf.add(
            encode(self.osp, 2 * n),
            encode(self.osp, 2 * n + 1),
            encode(self.asp, n),
            float(n),
            bool(n & 1),
            bool(n & 1) and bool(n & 2),
            CounterState(jnp.asarray(BIG + n, dtype=int)),
            CounterState(jnp.asarray(BIG + n + 1, dtype=int)),
        )
        self.model.append(n)
        if self.n > self.C:
            self.wraps += 1

    def row_number(self, buf, i, where):
        """Decode row i of `buf`; all fields must encode the same n."""
        ctx = self.ctx
        n = float(np.asarray(buf.rewards)[i])
        ok = (
            decode_all(buf.observations, i) == {2 * n}
            and decode_all(buf.next_observations, i) == {2 * n + 1}
            and decode_all(buf.actions, i) == {n}
            and int(np.asarray(buf.states.n)[i]) - BIG == n
            and int(np.asarray(buf.next_states.n)[i]) - BIG == n + 1
            and np.issubdtype(np.asarray(buf.states.n).dtype, np.integer)
            and bool(np.asarray(buf.dones)[i]) == bool(int(n) & 1)
            and bool(np.asarray(buf.timeouts)[i]) == (bool(int(n) & 1) and bool(int(n) & 2))
        )
        ctx.check(
            ok,
            f"C06/{where}/fields-of-a-row-from-different-insertions",
            row=i,
            reward=n,
            obs=sorted(decode_all(buf.observations, i)),
            next_obs=sorted(decode_all(buf.next_observations, i)),
            action=sorted(decode_all(buf.actions, i)),
            states=[int(np.asarray(buf.states.n)[i]) - BIG, str(np.asarray(buf.states.n).dtype)],
            next_states=[int(np.asarray(buf.next_states.n)[i]) - BIG],
        )
        return int(n)

    def check_contents(self):
        ctx = self.ctx
        ctx.check(int(self.buf.position) == self.n, "C06/position-not-insertion-count", expected=self.n, observed=int(self.buf.position))
        cur = int(self.buf.current_size)
        ctx.check(cur == min(self.n, self.C), "C06/current-size", expected=min(self.n, self.C), observed=cur)
        rows = []
        for i in range(self.C):
            if float(np.asarray(self.buf.rewards)[i]) == 0.0:
                # unwritten slot: must still hold the canonical fill everywhere
                blank = all(decode_all(t, i) == {0.0} for t in (self.buf.observations, self.buf.next_observations, self.buf.actions, self.buf.states, self.buf.next_states))
                ctx.check(blank, "C06/contents/partially-written-slot", row=i)
                rows.append(0)
            else:
                rows.append(self.row_number(self.buf, i, "contents"))
        stored = sorted(r for r in rows if r != 0)
        ctx.check(stored == sorted(self.model), "C06/contents-not-most-recent", stored=stored, expected=sorted(self.model))

    def sample(self, batch, seed):
        ctx = self.ctx
        assert 1 <= batch <= len(self.model)
        out = self.buf.sample(batch, key=jr.key(seed))
        ctx.check(np.asarray(out.rewards).shape == (batch,), "C06/sample/batch-shape", shape=list(np.asarray(out.rewards).shape))
        ns = [self.row_number(out, i, "sample") for i in range(batch)]
        ctx.check(all(n in self.model for n in ns), "C06/sample/returns-unstored-transition", sampled=ns, stored=sorted(self.model))
        ctx.check(len(set(ns)) == len(ns), "C06/sample/duplicate-in-batch", sampled=ns)
        if self.wraps:
            self.samples_after_wrap += 1


def oracle_trace(ctx: Ctx, case):
    ex = Exec(ctx, case["C"], case["obs_kind"], case["act_kind"])
    for op in case["ops"]:
        if op[0] == "add":
            ex.add()
            ex.check_contents()
        else:
            ex.sample(op[1], op[2])
    ctx.count(
        nontrivial=ex.samples_after_wrap > 0,
        classes=["wrapped"] * bool(ex.wraps) + ["sample_after_wrap"] * bool(ex.samples_after_wrap) + [f"C={case['C']}"],
        key=case,
    )


class RingMachine(RuleBasedStateMachine):
    """add / sample histories; invariant = deque model."""

    def __init__(self):
        super().__init__()
        self.trace = None
        self.ex = None

    @initialize(C=st.sampled_from([1, 2, 3, 3, 4, 4, 5, 6, 8, 12]), ok=st.sampled_from(["box", "discrete", "dict", "tuple"]), ak=st.sampled_from(["discrete", "box"]), pre=st.integers(0, 30))
    def setup(self, C, ok, ak, pre):
        self.trace = {"C": C, "obs_kind": ok, "act_kind": ak, "ops": []}
        self.ctx.begin(self.part, self.trace)
        self.ex = Exec(self.ctx, C, ok, ak)
        # history prefix (part of the trace): up to 2.5*C insertions so that wrap-around is common
        for _ in range(min(pre, (5 * C) // 2)):
            self.trace["ops"].append(["add"])
            self.ex.add()
        if self.ex.n:
            self.ex.check_contents()

    @rule(k=st.integers(1, 6))
    def add(self, k):
        for _ in range(k):
            self.trace["ops"].append(["add"])
            self.ctx.begin(self.part, self.trace)
            self.ex.add()
            self.ex.check_contents()

    @precondition(lambda self: self.ex is not None and len(self.ex.model) > 0)
    @rule(data=st.data(), seed=st.integers(0, 2**31 - 1))
    def sample(self, data, seed):
        b = data.draw(st.one_of(st.just(len(self.ex.model)), st.integers(1, len(self.ex.model))))
        self.trace["ops"].append(["sample", b, seed])
        self.ctx.begin(self.part, self.trace)
        self.ex.sample(b, seed)

    def teardown(self):
        if self.ex is None:
            return
        self.ctx.begin(self.part, self.trace)
        self.ctx.count(
            nontrivial=self.ex.samples_after_wrap > 0,
            classes=["wrapped"] * bool(self.ex.wraps) + ["sample_after_wrap"] * bool(self.ex.samples_after_wrap),
            key=self.trace,
        )


def oracle_joint(ctx: Ctx, case):
    """E per-environment buffers with different fill levels (0 allowed), stacked exactly like the
    vmapped buffers of off_policy.reset, sampled jointly."""
    C, E = case["C"], len(case["fills"])
    exs = [Exec(ctx, C, case["obs_kind"], case["act_kind"], offset=10_000 * (e + 1)) for e in range(E)]
    for ex, f in zip(exs, case["fills"]):
        for _ in range(f):
            ex.add()
        ex.check_contents()
    stacked = jax.tree.map(lambda *xs: jnp.stack(xs), *[ex.buf for ex in exs])
    stored = {n for ex in exs for n in ex.model}
    batch = case["batch"]
    assert 1 <= batch <= len(stored)
    out = stacked.sample(batch, key=jr.key(case["seed"]))
    ctx.check(np.asarray(out.rewards).shape == (batch,), "C06/joint/batch-shape", shape=list(np.asarray(out.rewards).shape))
    ns = [exs[0].row_number(out, i, "joint") for i in range(batch)]
    ctx.check(all(n in stored for n in ns), "C06/joint/returns-unstored-transition", sampled=ns, stored=sorted(stored), fills=case["fills"])
    ctx.check(len(set(ns)) == len(ns), "C06/joint/duplicate-in-batch", sampled=ns)
    # flatten_axes neither loses nor duplicates a slot
    flat = stacked.flatten_axes(None)
    rows = sorted(int(r) for r in np.asarray(flat.rewards) if r != 0)
    ctx.check(rows == sorted(stored), "C06/joint/flatten-loses-or-duplicates", flat=rows, stored=sorted(stored))
    for i in range(E * C):
        if float(np.asarray(flat.rewards)[i]) != 0:
            exs[0].row_number(flat, i, "flatten")
    unequal = len(set(case["fills"])) > 1
    ctx.count(
        nontrivial=unequal and (0 in case["fills"] or any(f > C for f in case["fills"])),
        classes=["unequal"] * unequal + ["has_empty"] * (0 in case["fills"]) + ["has_wrapped"] * any(f > C for f in case["fills"]) + ["full_batch"] * (batch == len(stored)),
    )


PARTS = {"ring": oracle_trace, "joint": oracle_joint}


@st.composite
def joint_cases(draw):
    C = draw(st.integers(1, 8))
    E = draw(st.integers(2, 4))
    fills = [draw(st.one_of(st.just(0), st.integers(0, C), st.integers(C, 3 * C))) for _ in range(E)]
    if sum(fills) == 0:
        fills[draw(st.integers(0, E - 1))] = draw(st.integers(1, 2 * C))
    stored = sum(min(f, C) for f in fills)
    return {
        "C": C,
        "fills": fills,
        "obs_kind": draw(st.sampled_from(["box", "discrete", "dict", "tuple"])),
        "act_kind": draw(st.sampled_from(["discrete", "box"])),
        "batch": draw(st.one_of(st.just(stored), st.integers(1, stored))),
        "seed": draw(st.integers(0, 2**31 - 1)),
    }


def run(ctx: Ctx):
    ctx.rule = (
        "Rule-based state machine: capacity C in 1..12, pytree observation/action spaces, rules add (row n encodes n in every "
        "field) and sample(batch<=stored, key); model = deque(maxlen=C); after every add the decoded valid slots must equal the "
        "model and every slot's fields must decode to one n. Joint part: 2-4 per-env buffers with unequal fill levels (incl. "
        "empty and wrapped) stacked and sampled jointly. Non-trivial: a sample after wrap-around / unequal fills with an empty or "
        "wrapped env; distinct by full trace."
    )
    ctx.assumptions = ["collections.deque(maxlen=C) is the model of 'most recent min(n, C)'"]
    ctx.run_machine("ring", RingMachine, ctx.n(120, 2500), ctx.n(14, 30))
    ctx.run_given("joint", joint_cases(), oracle_joint, ctx.n(150, 4000))
    ctx.require_fraction("ring", "sample_after_wrap", 0.3)
    ctx.require_fraction("joint", "unequal", 0.5)
