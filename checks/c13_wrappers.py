"""C13 — wrappers and adapters change only what they declare; TimeLimit is exact."""

from __future__ import annotations

import functools
import json

import jax
import numpy as np

import equinox as eqx
from hypothesis import strategies as st
from jax import numpy as jnp
from jax import random as jr

from checks import c01_step_reset as c01
from vlib import mdp, wrapref
from vlib.runner import Ctx

TOL = dict(rtol=1e-5, atol=1e-5)


# ----------------------------------------------------------------------------- wrapper stacks
def oracle_stack(ctx: Ctx, case):
    kind, spec, program = case["kind"], case["spec"], case["program"]
    env = c01.get_env(kind, spec, program)
    ref = wrapref.StackRef(spec, program)
    base_env = mdp.TableMDP(dict(spec, time_limit=None))
    s, acc, counts = case["s"], case["acc"] if ref.box else 0.0, case["counts"][: len(ref.limits)]
    counts = counts + [0] * (len(ref.limits) - len(counts))
    state = wrapref.set_state(env.initial(key=jr.key(0)), s, acc, counts)
    a = case["action"]
    act = jnp.asarray(a, dtype=float) if ref.box else jnp.asarray(int(a), dtype=int)
    tags = {"kind": kind}
    k = jr.key(case["key"])

    # ---- pass-through pieces
    ctx.check(env.name == "TableMDP", "C13/name-not-passed-through", tags=tags, name=env.name)
    ctx.check(isinstance(env.unwrapped, mdp.TableMDP) and c01.tree_equal(env.unwrapped, base_env), "C13/unwrapped-env-not-the-base-env", tags=tags, got=type(env.unwrapped).__name__)
    ub = state.unwrapped
    ctx.check(isinstance(ub, mdp.MDPState) and int(ub.s) == s and float(ub.acc) == np.float32(acc), "C13/state-unwrapped-not-the-base-state", tags=tags)

    # ---- spaces as declared
    if ref.box:
        lo, hi = ref.action_bounds()
        asp = env.action_space
        ctx.check(np.allclose(np.asarray(asp.low), lo, **TOL) and np.allclose(np.asarray(asp.high), hi, **TOL), "C13/advertised-action-space", tags=tags, low=asp.low, high=asp.high, expected=[lo, hi])
    else:
        ctx.check(getattr(env.action_space, "n", None) == spec["nA"], "C13/advertised-action-space", tags=tags)
    exp_obs, olo, ohi = ref.map_obs(ref.base.obs(s, acc))
    obs = env.observation(state, key=k)
    if isinstance(exp_obs, np.ndarray):
        ctx.check(np.asarray(obs).shape == exp_obs.shape and np.allclose(np.asarray(obs, np.float64), exp_obs, **TOL), "C13/observation-not-declared-transform", tags=tags, observed=obs, expected=exp_obs)
        osp = env.observation_space
        ctx.check(np.asarray(osp.low).shape == olo.shape and np.allclose(np.asarray(osp.low), olo, **TOL) and np.allclose(np.asarray(osp.high), ohi, **TOL), "C13/advertised-observation-space", tags=tags, low=osp.low, high=osp.high, expected=[olo, ohi])
        inside = np.all(exp_obs >= olo - 1e-5) and np.all(exp_obs <= ohi + 1e-5)
        if inside and np.all(np.abs(exp_obs - olo) > 1e-4) and np.all(np.abs(exp_obs - ohi) > 1e-4):
            ctx.check(bool(osp.contains(obs)), "C13/observation-outside-advertised-space", tags=tags, observed=obs)
    else:
        ctx.check(ref.base.obs_equal(jax.tree.map(np.asarray, obs), s, acc), "C13/observation-not-declared-transform", tags=tags)
        ctx.check(env.observation_space == base_env.observation_space or repr(env.observation_space) == repr(base_env.observation_space), "C13/advertised-observation-space", tags=tags)

    # ---- mask
    m = env.action_mask(state, key=k)
    em = ref.map_mask(ref.base.M[s]) if ref.base.M is not None else None
    ctx.check((m is None) == (em is None) and (m is None or np.array_equal(np.asarray(m), em)), "C13/action-mask-not-mapped", tags=tags, observed=m, expected=em)

    # ---- the transition: dynamics, reward and info all see f(a)
    s2, counts2, r, term, trunc, acc2, ia = ref.step(s, counts, a)
    nxt = env.transition(state, act, key=k)
    nb = wrapref.base_state(nxt)
    ctx.check(int(nb.s) == s2 and np.isclose(float(nb.acc), acc2, **TOL), "C13/dynamics-not-driven-with-mapped-action", tags=tags, observed=[int(nb.s), float(nb.acc)], expected=[s2, acc2], inner_action=ia)
    ctx.check(wrapref.time_limit_counters(nxt) == counts2, "C13/time-limit-counter", tags=tags, observed=wrapref.time_limit_counters(nxt), expected=counts2)
    rew = env.reward(state, act, nxt, key=k)
    ctx.check(np.asarray(rew).shape == () and np.isclose(float(rew), r, **TOL), "C13/reward-not-of-mapped-action-or-transform", tags=tags, observed=float(rew), expected=r, inner_action=ia)
    info = env.transition_info(state, act, nxt)
    ctx.check(
        set(info) == {"s", "a0", "s_next"} and int(info["s"]) == s and int(info["s_next"]) == s2 and np.isclose(float(info["a0"]), float(np.asarray(ia, np.float64).reshape(-1)[0]), **TOL),
        "C13/transition-info-not-of-mapped-action",
        tags=tags,
        observed={k_: np.asarray(v).tolist() for k_, v in info.items()},
        inner_action=ia,
    )
    ctx.check(bool(env.terminal(nxt, key=k)) == term, "C13/terminal-not-passed-through", tags=tags)
    ctx.check(bool(env.truncate(nxt)) == trunc, "C13/truncate", tags=tags, observed=bool(env.truncate(nxt)), expected=trunc, counts=counts2, limits=ref.limits_outer_first())
    sinfo = env.state_info(state)
    ctx.check(set(sinfo) == {"s"} and int(sinfo["s"]) == s, "C13/state-info-not-passed-through", tags=tags)
    kinds = sorted({op[0] for op in program})
    outside = False
    if ref.box:
        outside = not np.array_equal(np.clip(np.asarray(a, np.float64), BOXB[0], BOXB[1]), np.asarray(a, np.float64))
    ctx.count(nontrivial=len(kinds) >= 2, classes=kinds + ["outside_inner_bounds"] * outside + [f"depth={len(program)}"], key=[kind, program, s, a if not ref.box else round(float(a), 3)])


BOXB = c01.BOXB

# ----------------------------------------------------------------------------- wrapper stacks over built-in environments
CLASSIC_KIND = {"Pendulum": "box_bounded", "ContinuousMountainCar": "box_bounded", "CartPole": "disc_unbounded", "MountainCar": "disc_bounded", "Acrobot": "disc_bounded"}


@functools.lru_cache(maxsize=None)
def _classic_stack(name, program_json):
    base = c01._classic(name, None)
    return base, wrapref.build_on(base, json.loads(program_json))


@eqx.filter_jit
def _wrapped_parts(env, base, wstate, bstate, act, inner_act, k):
    nxt = env.transition(wstate, act, key=k)
    bnxt = base.transition(bstate, inner_act, key=k)
    return dict(
        nxt_base=nxt.unwrapped, bnxt=bnxt,
        rew=env.reward(wstate, act, nxt, key=k), brew=base.reward(bstate, inner_act, bnxt, key=k),
        obs=env.observation(wstate, key=k), bobs=base.observation(bstate, key=k),
        term=env.terminal(nxt, key=k), bterm=base.terminal(bnxt, key=k),
        trunc=env.truncate(nxt), btrunc=base.truncate(bnxt),
        nxt=nxt,
    )


def oracle_classic_stack(ctx: Ctx, case):
    """A wrapper program over a built-in environment behaves as the inner environment with only the declared
    change applied (inner env's own functions composed with the reference maps)."""
    name, program = case["env"], case["program"]
    base, env = _classic_stack(name, json.dumps(program))
    ref = wrapref.GenericRef(base, program)
    tags = {"env": name}
    bstate = c01._classic_state(base, name, case["y"], 0.3, None)
    counts = case["counts"][: len(ref.limits)] + [0] * max(0, len(ref.limits) - len(case["counts"]))
    # wrap the base state exactly as the stack nests it
    w0 = env.initial(key=jr.key(0))
    cs = list(counts)

    def rec(st_):
        if hasattr(st_, "env_state"):
            if hasattr(st_, "step_count"):
                st_ = eqx.tree_at(lambda x: x.step_count, st_, jnp.asarray(cs.pop(0), dtype=st_.step_count.dtype))
            return eqx.tree_at(lambda x: x.env_state, st_, rec(st_.env_state))
        return bstate

    wstate = rec(w0)
    a = case["action"]
    act = jnp.asarray(a, dtype=jnp.float32) if ref.box else jnp.asarray(int(a), dtype=int)
    ia = ref.map_action(a)
    inner_act = jnp.asarray(ia, dtype=jnp.float32) if ref.box else jnp.asarray(int(ia), dtype=int)
    P = _wrapped_parts(env, base, wstate, bstate, act, inner_act, jr.key(case["key"]))
    ctx.check(c01.tree_close(P["nxt_base"], P["bnxt"], 1e-5, 1e-6), "C13/classic/dynamics-not-driven-with-mapped-action", tags=tags, program=program, inner_action=ia)
    ctx.check(np.isclose(float(P["rew"]), ref.map_reward(float(P["brew"])), **TOL), "C13/classic/reward-not-of-mapped-action-or-transform", tags=tags, observed=float(P["rew"]), expected=ref.map_reward(float(P["brew"])))
    exp_obs, olo, ohi = ref.map_obs(np.asarray(P["bobs"], np.float64))
    ctx.check(np.allclose(np.asarray(P["obs"], np.float64), exp_obs, **TOL), "C13/classic/observation-not-declared-transform", tags=tags, observed=P["obs"], expected=exp_obs)
    osp = env.observation_space
    ctx.check(np.allclose(np.asarray(osp.low, np.float64), olo, **TOL) and np.allclose(np.asarray(osp.high, np.float64), ohi, **TOL), "C13/classic/advertised-observation-space", tags=tags, low=osp.low, high=osp.high, expected=[olo, ohi])
    if ref.box:
        lo, hi = ref.action_bounds()
        ctx.check(np.allclose(np.asarray(env.action_space.low), lo, **TOL) and np.allclose(np.asarray(env.action_space.high), hi, **TOL), "C13/classic/advertised-action-space", tags=tags)
    ctx.check(bool(P["term"]) == bool(P["bterm"]), "C13/classic/terminal-not-passed-through", tags=tags)
    counts2 = [c + 1 for c in counts]
    exp_trunc = bool(P["btrunc"]) or any(c >= n for c, n in zip(counts2, ref.limits_outer_first()))
    ctx.check(bool(P["trunc"]) == exp_trunc and wrapref.time_limit_counters(P["nxt"]) == counts2, "C13/classic/truncate", tags=tags, counts=counts2, limits=ref.limits_outer_first())
    ctx.check(env.unwrapped is base and env.name == base.name, "C13/classic/unwrapped-or-name", tags=tags)
    kinds = sorted({op[0] for op in program})
    ctx.count(nontrivial=len(kinds) >= 2, classes=[name] + kinds, key=[name, program, case["key"] % 64])


@st.composite
def classic_stack_cases(draw, name, programs):
    from checks.c01_step_reset import CLASSIC_REGIONS

    program = draw(st.sampled_from(programs))
    lo, hi = CLASSIC_REGIONS[name][0]
    y = [float(np.float32(draw(st.floats(a_, b_, allow_nan=False)))) if a_ < b_ else float(a_) for a_, b_ in zip(lo, hi)]
    base = c01._classic(name, None)
    ref = wrapref.GenericRef(base, program)
    if ref.box:
        alo, ahi = ref.action_bounds()
        l0, h0 = float(max(alo.reshape(-1)[0], -20.0)), float(min(ahi.reshape(-1)[0], 20.0))
        a = float(np.float32(draw(st.one_of(st.sampled_from([l0, h0, (l0 + h0) / 2]), st.floats(l0, h0, allow_nan=False)))))
        a = min(max(a, l0), h0)
    else:
        a = draw(st.integers(0, base.action_space.n - 1))
    return {"env": name, "program": program, "y": y, "action": a, "counts": [draw(st.integers(0, 6)) for _ in range(4)], "key": draw(st.integers(0, 2**31 - 2))}


@st.composite
def stack_cases(draw, pool):
    kind = draw(st.sampled_from(sorted(pool)))
    program = draw(st.sampled_from(pool[kind]))
    nS, nA = c01.SIZES[kind]
    spec = draw(mdp.mdp_specs(fixed_sizes=(nS, nA), act_kind="box" if kind == "box" else "discrete", obs_kinds=("dict",) if kind == "pytree" else ("onehot",), masked=kind != "box", fixed_time_limit="none"))
    if kind == "box":
        spec.update(act_low=BOXB[0], act_high=BOXB[1], K=draw(st.sampled_from([1.0, -2.0, 0.5])), act_shape=[])
    ref = wrapref.StackRef(spec, program)
    if kind == "box":
        lo, hi = ref.action_bounds()
        lo0, hi0 = float(max(lo.reshape(-1)[0], -20.0)), float(min(hi.reshape(-1)[0], 20.0))
        a = draw(st.one_of(st.sampled_from([lo0, hi0, (lo0 + hi0) / 2]), st.floats(lo0, hi0, allow_nan=False)))
        a = float(np.float32(a))
        a = min(max(a, lo0), hi0)
        a = wrapref.safe_action(ref, a)
    else:
        a = draw(st.integers(0, nA - 1))
    return {
        "kind": kind,
        "spec": spec,
        "program": program,
        "s": draw(st.integers(0, nS - 1)),
        "acc": draw(st.sampled_from([0.0, 0.5, -1.0])),
        "counts": [draw(st.integers(0, 6)) for _ in range(4)],
        "action": a,
        "key": draw(st.integers(0, 2**31 - 1)),
    }


# ----------------------------------------------------------------------------- rescale maps
def oracle_rescale(ctx: Ctx, case):
    """Affine rescale takes the new bounds exactly onto the original bounds (corners, midpoints)."""
    from lerax.wrapper import RescaleAction, RescaleObservation, TransformObservation

    k = len(case["low"])
    spec = dict(c01._blank_spec("box"), act_shape=[k], act_low=case["low"], act_high=case["high"], K=[1.0] * k)
    base = mdp.TableMDP(spec)
    mn, mx = np.asarray(case["min"], np.float32), np.asarray(case["max"], np.float32)
    if case["scalar_args"]:
        env = RescaleAction(base, jnp.asarray(mn[0]), jnp.asarray(mx[0]))
        mn, mx = np.full(k, mn[0]), np.full(k, mx[0])
    else:
        env = RescaleAction(base, jnp.asarray(mn), jnp.asarray(mx))
    low, high = np.asarray(case["low"], np.float64), np.asarray(case["high"], np.float64)
    ctx.check(np.allclose(np.asarray(env.action_space.low), mn) and np.allclose(np.asarray(env.action_space.high), mx), "C13/rescale/advertised-action-space", low=env.action_space.low, high=env.action_space.high)
    scale = np.maximum(np.abs(low), np.abs(high)) + 1.0
    # float32 conditioning of x -> (x - intercept) / gradient with gradient = (max-min)/(high-low),
    # intercept = min - low*gradient: absolute error ~ eps32 * (|x| + |intercept|) / gradient
    grad = (mx.astype(np.float64) - mn) / (high - low)
    icpt = mn - low * grad
    cond = 8 * 1.2e-7 * (np.maximum(np.abs(mn), np.abs(mx)) + np.abs(icpt)) / grad
    for name, pt, exp in (("min->low", mn, low), ("max->high", mx, high), ("mid->mid", (mn + mx) / 2, (low + high) / 2), ("mixed", np.where(np.arange(k) % 2 == 0, mn, mx), np.where(np.arange(k) % 2 == 0, low, high))):
        got = np.asarray(env.func(jnp.asarray(pt)), np.float64)
        ctx.check(np.all(np.abs(got - exp) <= 2e-6 * scale + cond), "C13/rescale/action-map-does-not-take-new-bounds-onto-original", point=name, observed=got, expected=exp)
    # the same through the environment: the base env's recorded a0 is the mapped first component
    st0 = env.initial(key=jr.key(0))
    nxt = env.transition(st0, jnp.asarray(mx), key=jr.key(1))
    ctx.check(abs(float(wrapref.base_state(nxt).acc) - high[0]) <= 2e-6 * scale[0] + cond[0], "C13/rescale/dynamics-not-driven-with-mapped-action", observed=float(wrapref.base_state(nxt).acc), expected=high[0])
    # observation rescale: forward map takes the original bounds onto the new ones
    obs_lo, obs_hi = np.asarray(case["olow"], np.float32), np.asarray(case["ohigh"], np.float32)
    nS = spec["nS"]
    obase = mdp.TableMDP(c01._blank_spec("disc"))
    a_ = (obs_hi - obs_lo)[:nS]
    b_ = obs_lo[:nS]
    from lerax.space import Box

    tenv = TransformObservation(obase, wrapref.Affine(jnp.asarray(a_), jnp.asarray(b_)), Box(b_, a_ + b_))
    omn, omx = float(case["omin"]), float(case["omax"])
    renv = RescaleObservation(tenv, jnp.asarray(omn), jnp.asarray(omx))
    ctx.check(np.allclose(np.asarray(renv.observation_space.low), omn) and np.allclose(np.asarray(renv.observation_space.high), omx), "C13/rescale/advertised-observation-space")
    st1 = wrapref.set_state(renv.initial(key=jr.key(0)), case["s"], 0.0, [])
    o = np.asarray(renv.observation(st1, key=jr.key(0)), np.float64)
    exp = np.where(np.arange(nS) == case["s"], omx, omn)
    ctx.check(np.all(np.abs(o - exp) <= 2e-5 * (abs(omn) + abs(omx) + 1)), "C13/rescale/observation-map-does-not-take-bounds-onto-new-bounds", observed=o, expected=exp)
    asym = bool(np.any(np.abs(low + high) > 1e-3))
    ctx.count(nontrivial=asym and k > 1, classes=["asymmetric"] * asym + [f"k={k}"] + ["scalar_args"] * case["scalar_args"])


@st.composite
def rescale_cases(draw):
    k = draw(st.integers(1, 3))
    f = st.floats(-5, 5, allow_nan=False).map(lambda x: round(x, 2))
    w = st.floats(0.1, 10, allow_nan=False).map(lambda x: round(x, 2))
    low = [draw(f) for _ in range(k)]
    high = [l + draw(w) for l in low]
    mn = [draw(f) for _ in range(k)]
    mx = [m + draw(w) for m in mn]
    nS = c01.SIZES["disc"][0]
    olow = [draw(f) for _ in range(nS)]
    ohigh = [l + draw(w) for l in olow]
    omin = draw(f)
    return {"low": low, "high": high, "min": mn, "max": mx, "scalar_args": draw(st.booleans()), "olow": olow, "ohigh": ohigh, "omin": omin, "omax": omin + draw(w), "s": draw(st.integers(0, nS - 1))}


# ----------------------------------------------------------------------------- every documented wrapper constructs
def oracle_constructible(ctx: Ctx, case):
    from lerax import wrapper as W
    from lerax.env.classic_control import CartPole, Pendulum
    from lerax.space import Box

    name = case["wrapper"]
    cart, pend = CartPole(), Pendulum()
    try:
        env = {
            "Identity": lambda: W.Identity(cart),
            "TimeLimit": lambda: W.TimeLimit(cart, 5),
            "TransformAction": lambda: W.TransformAction(cart, wrapref.Perm(jnp.array([1, 0])), cart.action_space),
            "ClipAction": lambda: W.ClipAction(pend),
            "RescaleAction": lambda: W.RescaleAction(pend),
            "TransformObservation": lambda: W.TransformObservation(cart, wrapref.Affine(jnp.asarray(2.0), jnp.asarray(0.0)), Box(-jnp.inf, jnp.inf, shape=(4,))),
            "ClipObservation": lambda: W.ClipObservation(cart),
            "RescaleObservation": lambda: W.RescaleObservation(pend),
            "FlattenObservation": lambda: W.FlattenObservation(cart),
            "TransformReward": lambda: W.TransformReward(cart, wrapref.Affine(jnp.asarray(2.0), jnp.asarray(1.0))),
            "ClipReward": lambda: W.ClipReward(cart, -0.5, 0.5),
        }[name]()
    except TypeError as exc:
        ctx.fail("C13/documented-wrapper-cannot-be-constructed", tags={"wrapper": name}, error=str(exc)[:300])
        return
    state, obs, _ = env.reset(key=jr.key(case["key"]))
    a = env.action_space.sample(key=jr.key(case["key"] + 1))
    out = env.step(state, a, key=jr.key(case["key"] + 2))
    ctx.check(len(out) == 6 and bool(np.isfinite(float(out[2]))), "C13/constructed-wrapper-does-not-step", tags={"wrapper": name})
    ctx.check(env.unwrapped is (cart if name not in ("ClipAction", "RescaleAction", "RescaleObservation") else pend), "C13/unwrapped-env-not-the-base-env", tags={"wrapper": name})
    ctx.count(nontrivial=True, classes=[name], key=[name, case["key"] % 4])


# ----------------------------------------------------------------------------- TimeLimit exactness (histories)
def oracle_timelimit(ctx: Ctx, case):
    """Truncation at exactly the N-th step of every episode (lock-step with the reference)."""
    ex = c01.Exec(ctx, case["kind"], case["spec"], case["program"])
    ex.reset(case["ops"][0][1])
    ends, ep_len = [], 0
    for op in case["ops"][1:]:
        if op[0] == "reset":
            ex.reset(op[1])
            ep_len = 0
            continue
        before = list(ex.flags)
        ex.flags.clear()
        ex.step(op[1], op[2])
        ep_len += 1
        if ex.flags:
            ends.append((ep_len, sorted(ex.flags)[0]))
            ep_len = 0
        ex.flags |= set(before)
    N = min(ex.ref.limits)
    ctx.check(all(l <= N for l, _ in ends), "C13/time-limit/episode-longer-than-N", ends=ends, N=N)
    full = any(l == N for l, _ in ends)
    early = any(l < N and f in ("term",) for l, f in ends)
    ctx.count(nontrivial=full and early, classes=["ran_to_N"] * full + ["inner_end_before_N"] * early + [f"N={N}"], key=[case["program"], ends])


@st.composite
def timelimit_cases(draw):
    kind = draw(st.sampled_from(["disc", "box"]))
    N = draw(st.integers(1, 8))
    shape = draw(st.sampled_from([0, 1, 2, 3, 4]))
    program = [[["time_limit", N]], [["identity"], ["time_limit", N]], [["time_limit", N], ["rew_affine", 2.0, 1.0]], [["time_limit", N + 2], ["obs_clip"], ["time_limit", N]], [["time_limit", N], ["identity"], ["time_limit", N + 3]]][shape]
    nS, nA = c01.SIZES[kind]
    spec = draw(mdp.mdp_specs(fixed_sizes=(nS, nA), act_kind="box" if kind == "box" else "discrete", masked=False, fixed_time_limit="none"))
    spec["U"] = [False] * nS if draw(st.booleans()) else spec["U"]
    if kind == "box":
        spec.update(act_low=BOXB[0], act_high=BOXB[1], K=1.0, act_shape=[])
    seed = draw(st.integers(0, 2**31 - 1000))
    ops = [["reset", seed]]
    for i in range(draw(st.integers(N, 3 * N + 2))):
        if draw(st.integers(0, 11)) == 0:
            ops.append(["reset", seed + 500 + i])
        a = draw(st.floats(BOXB[0], BOXB[1], allow_nan=False)) if kind == "box" else draw(st.integers(0, nA - 1))
        if kind == "box":
            a = wrapref.safe_action(wrapref.StackRef(spec, program), float(np.float32(a)))
        ops.append(["step", a, seed + 1 + i])
    return {"kind": kind, "spec": spec, "program": program, "ops": ops}


# ----------------------------------------------------------------------------- adapters
@functools.lru_cache(maxsize=None)
def _gym_pair(name):
    import gymnasium as gym

    from lerax.compatibility.gym import GymToLeraxEnv

    return GymToLeraxEnv(gym.make(name)), gym.make(name)


def oracle_gym_to_lerax(ctx: Ctx, case):
    env, twin = _gym_pair(case["env"])
    tags = {"adapter": "GymToLeraxEnv", "env": case["env"]}
    seed = case["seed"]
    state = env.initial(key=jr.key(0), seed=seed)
    tobs, _ = twin.reset(seed=seed)
    ctx.check(np.allclose(np.asarray(env.observation(state, key=jr.key(0))), tobs, rtol=1e-6, atol=1e-6), "C13/adapter/reset-observation", tags=tags)
    ended = False
    n = 0
    for i, a in enumerate(case["actions"]):
        act = jnp.asarray(a, dtype=jnp.float32).reshape(twin.action_space.shape) if hasattr(twin.action_space, "low") else jnp.asarray(int(a))
        nxt = env.transition(state, act, key=jr.key(i))
        tobs, tr, tterm, ttrunc, _ = twin.step(np.asarray(act))
        n += 1
        ctx.check(np.allclose(np.asarray(env.observation(nxt, key=jr.key(0))), tobs, rtol=1e-6, atol=1e-6), "C13/adapter/trajectory-observation", tags=tags, step=i)
        ctx.check(np.isclose(float(env.reward(state, act, nxt, key=jr.key(0))), float(tr), rtol=1e-6, atol=1e-6), "C13/adapter/trajectory-reward", tags=tags, step=i, observed=float(env.reward(state, act, nxt, key=jr.key(0))), expected=float(tr))
        ctx.check(bool(env.terminal(nxt, key=jr.key(0))) == bool(tterm) and bool(env.truncate(nxt)) == bool(ttrunc), "C13/adapter/trajectory-flags", tags=tags, step=i)
        state = nxt
        if tterm or ttrunc:
            ended = True
            break
    ctx.count(nontrivial=n >= 3, classes=[case["env"]] + ["episode_end"] * ended, key=[case["env"], seed % 97, n])


def oracle_lerax_to_gym(ctx: Ctx, case):
    """LeraxToGymEnv / LeraxToGymnaxEnv vs the lerax env's own functional components applied to the
    state the adapter exposes."""
    from lerax.compatibility.gym import LeraxToGymEnv
    from lerax.compatibility.gymnax import LeraxToGymnaxEnv

    tl = case.get("time_limit")
    lenv = c01._classic(case["env"], 5 if tl else None)
    if tl:
        lenv = eqx.tree_at(lambda e: e.max_episode_steps, lenv, jnp.asarray(tl, dtype=int))
    fresh = c01.classic_fresh(case["env"])
    tags = {"adapter": case["adapter"], "env": case["env"]}
    isbox = hasattr(lenv.action_space, "low")
    if case["adapter"] == "LeraxToGymEnv":
        genv = LeraxToGymEnv(lenv)
        obs, info = genv.reset(seed=case["seed"])
        ctx.check(fresh(genv.state) is None and np.allclose(obs, np.asarray(lenv.observation(genv.state, key=jr.key(0)))), "C13/adapter/reset", tags=tags)
        ended = 0
        for i, a in enumerate(case["actions"]):
            prev = genv.state
            act = np.float32(a) if isbox else int(a)
            obs, r, term, trunc, info = genv.step(act)
            ja = jnp.asarray(act)
            comp = c01.components(lenv, prev, ja, jr.key(0), jr.key(1))
            nxt = comp["nxt"]
            ctx.check(np.isclose(r, float(comp["reward"]), **TOL), "C13/adapter/step-reward", tags=tags, step=i)
            ctx.check(term == bool(comp["term"]) and trunc == bool(comp["trunc"]), "C13/adapter/step-flags", tags=tags, step=i)
            ctx.check(np.allclose(obs, np.asarray(c01.observe(lenv, genv.state, jr.key(0))), **TOL), "C13/adapter/step-observation-not-of-exposed-state", tags=tags, step=i)
            if term or trunc:
                ended += 1
                ctx.check(fresh(genv.state) is None, "C13/adapter/post-done-state-not-fresh", tags=tags)
            else:
                ctx.check(c01.tree_close(genv.state, nxt), "C13/adapter/state-not-the-successor", tags=tags, step=i)
        # seeding: reset(seed=s) on the used adapter starts the same episode it started the first time
        first = np.asarray(LeraxToGymEnv(lenv).reset(seed=case["seed"])[0])
        again = np.asarray(genv.reset(seed=case["seed"])[0])
        ctx.check(np.array_equal(first, again), "C13/adapter/reseeded-reset-depends-on-adapter-history", tags=tags, seed=case["seed"])
    else:
        genv = LeraxToGymnaxEnv(lenv)
        params = genv.default_params
        obs, gstate = genv.reset_env(jr.key(case["seed"]), params)
        ctx.check(fresh(gstate.env_state) is None and int(gstate.time) == 0 and np.allclose(np.asarray(obs), np.asarray(lenv.observation(gstate.env_state, key=jr.key(0)))), "C13/adapter/reset", tags=tags)
        ended = 0
        for i, a in enumerate(case["actions"]):
            prev = gstate
            ja = jnp.asarray(np.float32(a)) if isbox else jnp.asarray(int(a))
            obs, gstate, r, done, info = genv.step_env(jr.key(case["seed"] + 1 + i), prev, ja, params)
            comp = c01.components(lenv, prev.env_state, ja, jr.key(0), jr.key(1))
            nxt = comp["nxt"]
            ctx.check(np.isclose(float(r), float(comp["reward"]), **TOL), "C13/adapter/step-reward", tags=tags, step=i)
            exp_done = bool(comp["term"]) or bool(comp["trunc"])
            ctx.check(bool(done) == exp_done, "C13/adapter/step-flags", tags=tags, step=i)
            ctx.check(int(gstate.time) == int(prev.time) + 1, "C13/adapter/time-counter", tags=tags)
            ctx.check(np.allclose(np.asarray(obs), np.asarray(c01.observe(lenv, gstate.env_state, jr.key(0))), **TOL), "C13/adapter/step-observation-not-of-exposed-state", tags=tags, step=i)
            ctx.check(np.allclose(np.asarray(genv.get_obs(gstate)), np.asarray(obs), **TOL), "C13/adapter/get-obs", tags=tags)
            if exp_done:
                ended += 1
                ctx.check(fresh(gstate.env_state) is None, "C13/adapter/post-done-state-not-fresh", tags=tags)
            else:
                ctx.check(c01.tree_close(gstate.env_state, nxt), "C13/adapter/state-not-the-successor", tags=tags, step=i)
    ctx.count(nontrivial=len(case["actions"]) >= 3, classes=[case["adapter"], case["env"]] + ["episode_end"] * bool(ended) + ["time_limited"] * bool(tl), key=[case["adapter"], case["env"], tl, case["seed"] % 97, len(case["actions"])])


@functools.lru_cache(maxsize=None)
def _gymnax_pair(name, max_steps=None):
    import gymnax

    from lerax.compatibility.gymnax import GymnaxToLeraxEnv

    genv, params = gymnax.make(name)
    if max_steps is not None and hasattr(params, "max_steps_in_episode"):
        params = params.replace(max_steps_in_episode=max_steps)  # the adapter is built for these, not the default, parameters
    return GymnaxToLeraxEnv(genv, params), genv, params


def oracle_gymnax_to_lerax(ctx: Ctx, case):
    env, genv, params = _gymnax_pair(case["env"], case.get("gx_max_steps"))
    tags = {"adapter": "GymnaxToLeraxEnv", "env": case["env"]}
    k0 = jr.key(case["seed"])
    state = env.initial(key=k0)
    gobs, gstate = genv.reset_env(k0, params)
    ctx.check(np.allclose(np.asarray(env.observation(state, key=k0)), np.asarray(gobs), **TOL), "C13/adapter/reset-observation", tags=tags)
    ended = False
    isbox = hasattr(env.action_space, "low")
    n = 0
    for i, a in enumerate(case["actions"]):
        k = jr.key(case["seed"] + 1 + i)
        act = jnp.asarray(np.float32(a)).reshape(env.action_space.shape) if isbox else jnp.asarray(int(a))
        nxt = env.transition(state, act, key=k)
        gobs, gstate, gr, gdone, _ = genv.step_env(k, gstate, act, params)
        n += 1
        ctx.check(np.allclose(np.asarray(env.observation(nxt, key=k)), np.asarray(gobs), **TOL), "C13/adapter/trajectory-observation", tags=tags, step=i)
        ctx.check(np.isclose(float(env.reward(state, act, nxt, key=k)), float(gr), **TOL), "C13/adapter/trajectory-reward", tags=tags, step=i)
        ctx.check(bool(env.terminal(nxt, key=k)) == bool(gdone), "C13/adapter/trajectory-flags", tags=tags, step=i)
        state = nxt
        if bool(gdone):
            ended = True
            break
    ctx.count(nontrivial=n >= 3, classes=["GymnaxToLeraxEnv", case["env"]] + ["episode_end"] * ended + ["custom_params"] * (case.get("gx_max_steps") is not None), key=[case["env"], case["seed"] % 97, n, case.get("gx_max_steps")])


PARTS = {
    "classic_stack": oracle_classic_stack,
    "stack": oracle_stack,
    "rescale": oracle_rescale,
    "constructible": oracle_constructible,
    "time_limit": oracle_timelimit,
    "gym_to_lerax": oracle_gym_to_lerax,
    "lerax_to_gym": oracle_lerax_to_gym,
    "gymnax_to_lerax": oracle_gymnax_to_lerax,
}

WRAPPERS = ["Identity", "TimeLimit", "TransformAction", "ClipAction", "RescaleAction", "TransformObservation", "ClipObservation", "RescaleObservation", "FlattenObservation", "TransformReward", "ClipReward"]


@st.composite
def adapter_cases(draw, env, box, bound, n_max=40, adapters=(None,)):
    n = draw(st.integers(3, n_max))
    hold = draw(st.booleans())
    if box:
        h = draw(st.sampled_from([-bound, bound]))
        acts = [h if hold else draw(st.floats(-bound, bound, allow_nan=False)) for _ in range(n)]
    else:
        h = draw(st.integers(0, bound - 1))
        acts = [h if hold else draw(st.integers(0, bound - 1)) for _ in range(n)]
    seed = draw(st.one_of(st.sampled_from([0, 1, 2]), st.integers(0, 2**31 - 1000)))  # small seeds (incl. 0) are what users type
    return {"env": env, "seed": seed, "actions": acts, "adapter": draw(st.sampled_from(list(adapters))), "time_limit": draw(st.sampled_from([None, 2, 4, 7])), "gx_max_steps": draw(st.sampled_from([None, 3, 6, 11]))}


def run(ctx: Ctx):
    ctx.rule = (
        "Wrapper programs (seeded pool of stacks, depth 1-4, all 11 documented wrappers) over generated finite MDPs: functional "
        "components of the wrapped env vs a NumPy reference composed from the declarations (mapped action reaches dynamics, reward "
        "and info; only the declared signal changes; advertised spaces; pass-through of mask/flags/info/name/unwrapped); rescale "
        "corner/midpoint laws; TimeLimit histories in lock-step with the reference; adapters vs twin Gymnasium/Gymnax envs or the "
        "lerax env's own components. Non-trivial: stack with >=2 wrapper kinds / asymmetric multi-dim bounds / history with an inner "
        "termination before N and an episode running to N / adapter trajectory of >=3 steps; distinct by case."
    )
    ctx.assumptions = ["vlib/wrapref.py StackRef composes the declared semantics", "Gymnasium/Gymnax envs are deterministic given seed/key"]
    rng = np.random.default_rng(ctx.seed + 13)
    pool = {}
    for kind, n in (("disc", ctx.n(14, 60)), ("box", ctx.n(12, 50)), ("pytree", ctx.n(4, 12))):
        progs = wrapref.program_pool(kind, rng, n)
        pool[kind] = [wrapref.fill_perms(p, c01.SIZES[kind][1], rng) for p in progs]
    used = {op[0] for ps in pool.values() for p in ps for op in p}
    ctx.notes["wrapper_kinds_in_pool"] = sorted(used)
    ctx.notes["wrapper_programs"] = sum(len(v) for v in pool.values())
    ctx.run_given("stack", stack_cases(pool), oracle_stack, ctx.n(500, 10000))
    ctx.run_given("rescale", rescale_cases(), oracle_rescale, ctx.n(60, 1500))
    # the same program vocabulary over built-in environments (bounded-Box and Discrete action spaces)
    for name, kind in (("Pendulum", "box"), ("CartPole", "disc")) if ctx.quick else (("Pendulum", "box"), ("ContinuousMountainCar", "box"), ("CartPole", "disc"), ("MountainCar", "disc"), ("Acrobot", "disc")):
        base = c01._classic(name, None)
        spec_like = {"act_kind": "box" if kind == "box" else "discrete", "obs_kind": "onehot"}
        progs = []
        for p in wrapref.program_pool("box" if kind == "box" else "disc", rng, ctx.n(6, 20)):
            # programs are generated for the MDP family; keep those applicable to this env's spaces
            bounded_obs = bool(np.all(np.isfinite(np.asarray(base.observation_space.low))))
            if any(op[0] == "obs_rescale" for op in p) and (not bounded_obs or any(op[0] == "obs_flatten" for op in p[: [o[0] for o in p].index("obs_rescale")])):
                continue
            progs.append(wrapref.fill_perms(p, getattr(base.action_space, "n", 0), rng))
        if progs:
            ctx.run_given("classic_stack", classic_stack_cases(name, progs), oracle_classic_stack, ctx.n(80, 1500))
    ctx.run_cases("constructible", [{"wrapper": w, "key": ctx.seed + i} for i, w in enumerate(WRAPPERS)], oracle_constructible)
    ctx.run_given("time_limit", timelimit_cases(), oracle_timelimit, ctx.n(120, 2500))
    for env, box, bound in (("CartPole-v1", False, 2), ("Pendulum-v1", True, 2.0), ("Acrobot-v1", False, 3), ("MountainCar-v0", False, 3)):
        ctx.run_given("gym_to_lerax", adapter_cases(env, box, bound), oracle_gym_to_lerax, ctx.n(10, 150))
    for env, box, bound in (("CartPole", False, 2), ("Pendulum", True, 2.0), ("MountainCar", False, 3)):
        ctx.run_given("lerax_to_gym", adapter_cases(env, box, bound, n_max=25, adapters=("LeraxToGymEnv", "LeraxToGymnaxEnv")), oracle_lerax_to_gym, ctx.n(10, 150))
    for env, box, bound in (("CartPole-v1", False, 2), ("Pendulum-v1", True, 2.0), ("MountainCar-v0", False, 3)):
        ctx.run_given("gymnax_to_lerax", adapter_cases(env, box, bound, n_max=30), oracle_gymnax_to_lerax, ctx.n(10, 150))
    ctx.require_fraction("stack", "nontrivial", 0.4)
    ctx.require_fraction("time_limit", "ran_to_N", 0.3)
