"""C07 — TD targets bootstrap through truncation, never through termination."""

from __future__ import annotations

import functools
from typing import ClassVar

import jax

jax.config.update("jax_enable_x64", True)

import equinox as eqx
import numpy as np
import optax
from hypothesis import strategies as st
from jax import numpy as jnp
from jax import random as jr

from checks.c01_step_reset import _blank_spec
from lerax.algorithm import DQN, SAC
from lerax.algorithm.sac import SoftQNetwork
from lerax.buffer import ReplayBuffer
from lerax.policy import MLPQPolicy
from lerax.policy.sac.base_sac import AbstractSACPolicy
from lerax.space import Box
from vlib import mdp
from vlib.doubles import CounterState, TableQPolicy
from vlib.algos import transplant
from vlib.runner import Ctx

NS, NA = 4, 3


@functools.lru_cache(maxsize=None)
def _env():
    spec = _blank_spec("disc")
    return mdp.TableMDP(spec), spec


def _onehot(ids):
    return jnp.asarray(np.eye(NS)[np.asarray(ids, int)], dtype=float)


def _batch(case, with_state):
    """A ReplayBuffer-shaped batch with exactly the generated rows."""
    env, spec = _env()
    B = len(case["rewards"])
    st0 = CounterState(jnp.asarray(0, dtype=int)) if with_state else None
    buf = ReplayBuffer(B, env.observation_space, env.action_space, st0)
    repl = {
        "observations": _onehot(case["s"]),
        "next_observations": _onehot(case["s2"]),
        "actions": jnp.asarray(case["a"], dtype=int),
        "rewards": jnp.asarray(case["rewards"], dtype=float),
        "dones": jnp.asarray(case["dones"], dtype=bool),
        "timeouts": jnp.asarray(case["timeouts"], dtype=bool),
        "position": jnp.asarray(B, dtype=int),
    }
    for k, v in repl.items():
        buf = eqx.tree_at(lambda b, k=k: getattr(b, k), buf, v)
    if with_state:
        n0 = jnp.asarray(case.get("n_state", list(range(B))), dtype=int)
        buf = eqx.tree_at(lambda b: (b.states, b.next_states), buf, (CounterState(n0), CounterState(n0 + 1)))
    return buf


@eqx.filter_jit
def _dqn_loss_and_grad(policy, batch, target, gamma):
    return eqx.filter_value_and_grad(DQN.dqn_loss)(policy, batch, target, gamma)


@eqx.filter_jit
def _dqn_grad_target(policy, batch, target, gamma):
    return eqx.filter_grad(lambda t, p, b, g: DQN.dqn_loss(p, b, t, g))(target, policy, batch, gamma)


@eqx.filter_jit
def _q_all(policy, state, obs):
    return jax.vmap(lambda o: policy.q_values(state, o)[1])(obs)


@eqx.filter_jit
def _q_rows(policy, states, obs):
    return jax.vmap(lambda st_, o: policy.q_values(st_, o)[1])(states, obs)


def _flags(case):
    d, t = np.asarray(case["dones"], bool), np.asarray(case["timeouts"], bool)
    return dict(timeout=bool((d & t).any()), terminated=bool((d & ~t).any()), ordinary=bool((~d & ~t).any()), raw=bool((~d & t).any()))


def oracle_dqn(ctx: Ctx, case):
    env, spec = _env()
    kind = case["kind"]
    if kind == "table":
        on = TableQPolicy(env, spec, case["q_on"], 0.1, case.get("w_on"))
        tg = TableQPolicy(env, spec, case["q_tg"], 0.1, case.get("w_tg"))
        pstate = CounterState(jnp.asarray(0, dtype=int))
    else:
        on = MLPQPolicy(env, width_size=8, depth=1, key=jr.key(case["k_on"]))
        tg = MLPQPolicy(env, width_size=8, depth=1, key=jr.key(case["k_tg"]))
        pstate = None
    batch = _batch(case, with_state=kind == "table")
    gamma = case["gamma"]
    loss, grads = _dqn_loss_and_grad(on, batch, tg, jnp.asarray(gamma))
    # reference from the policies' own per-row Q values (the networks are the trusted part here)
    if kind == "table":
        # stateful policy: each row is evaluated with the policy state stored in that row
        q_s = np.asarray(_q_rows(on, batch.states, batch.observations), np.float64)
        q_on_n = np.asarray(_q_rows(on, batch.next_states, batch.next_observations), np.float64)
        q_tg_n = np.asarray(_q_rows(tg, batch.next_states, batch.next_observations), np.float64)
    else:
        q_s = np.asarray(_q_all(on, pstate, batch.observations), np.float64)
        q_on_n = np.asarray(_q_all(on, pstate, batch.next_observations), np.float64)
        q_tg_n = np.asarray(_q_all(tg, pstate, batch.next_observations), np.float64)
    a = np.asarray(case["a"], int)
    B = len(a)
    r = np.asarray(case["rewards"], np.float64)
    terminated = np.asarray(case["dones"], bool) & ~np.asarray(case["timeouts"], bool)
    greedy = q_on_n.argmax(1)
    y = r + gamma * (1.0 - terminated) * q_tg_n[np.arange(B), greedy]
    q_sel = q_s[np.arange(B), a]
    ref = 0.5 * np.mean((q_sel - y) ** 2)
    fl = _flags(case)
    double = bool((q_on_n.argmax(1) != q_tg_n.argmax(1)).any())
    tags = {"algo": "DQN"}
    if not np.isclose(float(loss), ref, rtol=1e-9, atol=1e-10):
        # name the root cause when it is recognisable
        alt = {
            "bootstraps-through-termination": r + gamma * q_tg_n[np.arange(B), greedy],
            "no-bootstrap-through-truncation": r + gamma * (1.0 - np.asarray(case["dones"], bool)) * q_tg_n[np.arange(B), greedy],
            "target-evaluated-with-online-network": r + gamma * (1.0 - terminated) * q_on_n[np.arange(B), greedy],
            "max-of-target-network-not-double-dqn": r + gamma * (1.0 - terminated) * q_tg_n.max(1),
        }
        for name, y2 in alt.items():
            if np.isclose(float(loss), 0.5 * np.mean((q_sel - y2) ** 2), rtol=1e-9, atol=1e-10):
                ctx.fail(f"C07/dqn/{name}", tags=tags, observed=float(loss), expected=ref)
                break
        else:
            ctx.fail("C07/dqn/loss-not-the-td-objective", tags=tags, observed=float(loss), expected=ref)
    # semi-gradient: targets are constants
    if kind == "table":
        g = np.zeros((NS, NA))
        s = np.asarray(case["s"], int)
        for i in range(B):
            g[s[i], a[i]] += (q_sel[i] - y[i]) / B
        ctx.close(np.asarray(grads.q), g, "C07/dqn/online-gradient-not-semi-gradient", rtol=1e-8, atol=1e-10, tags=tags)
        gw = np.zeros(NA)
        n0 = np.asarray(case.get("n_state", list(range(B))), np.float64)
        for i in range(B):
            gw[a[i]] += (q_sel[i] - y[i]) / B * n0[i]
        ctx.close(np.asarray(grads.w), gw, "C07/dqn/online-gradient-not-semi-gradient", rtol=1e-8, atol=1e-10, tags=tags, leaf="w")
    ctx.count(
        nontrivial=fl["timeout"] and fl["terminated"] and fl["ordinary"] and double,
        classes=[k for k, v in fl.items() if v] + ["double_differs"] * double + [kind] + ["stateful_q"] * bool(case.get("w_on")),
        key=[kind, case["dones"], case["timeouts"], round(gamma, 4), case.get("k_on", 0) % 64, B],
    )


# ----------------------------------------------------------------------------- SAC
class DetSACPolicy(AbstractSACPolicy):
    """action_and_log_prob returns fixed functions of the observation (tables by state id), so the
    q_loss sac_train reports is an exact function of the batch."""

    name: ClassVar[str] = "DetSACPolicy"
    action_space: Box
    observation_space: Box
    atab: jnp.ndarray
    lptab: jnp.ndarray

    def __init__(self, atab, lptab):
        self.action_space = Box(-1.0, 1.0, shape=(2,))
        self.observation_space = Box(0.0, 1.0, shape=(NS,))
        self.atab = jnp.asarray(atab, dtype=float)
        self.lptab = jnp.asarray(lptab, dtype=float)

    def reset(self, *, key):
        return None

    def __call__(self, state, observation, *, key=None, action_mask=None):
        return None, self.atab[jnp.argmax(observation)]

    def action_distribution(self, state, observation):
        raise NotImplementedError

    def action_and_log_prob(self, state, observation, *, key):
        s = jnp.argmax(observation)
        return None, self.atab[s], self.lptab[s]


def _sac_kw(B, autotune):
    return dict(batch_size=B, policy_frequency=2, autotune=autotune, q_lr=1e-2, policy_lr=1e-2, q_width_size=8, q_depth=1, buffer_size=64, learning_starts=1, num_envs=1)


@functools.lru_cache(maxsize=None)
def _sac(B, autotune):
    return SAC(**_sac_kw(B, autotune))


@eqx.filter_jit
def _sac_train(algo, policy, opt_state, buffer, qf1, qf2, qf1_t, qf2_t, q_opt_state, log_alpha, alpha_opt_state, target_entropy, it, key):
    return algo.sac_train(policy, opt_state, buffer, qf1, qf2, qf1_t, qf2_t, q_opt_state, log_alpha, alpha_opt_state, target_entropy, it, key=key)


def _sac_batch(case):
    B = len(case["rewards"])
    pol = DetSACPolicy(case["atab"], case["lptab"])
    buf = ReplayBuffer(B, pol.observation_space, pol.action_space, None)
    repl = {
        "observations": _onehot(case["s"]),
        "next_observations": _onehot(case["s2"]),
        "actions": jnp.asarray(case["act"], dtype=float),
        "rewards": jnp.asarray(case["rewards"], dtype=float),
        "dones": jnp.asarray(case["dones"], dtype=bool),
        "timeouts": jnp.asarray(case["timeouts"], dtype=bool),
        "position": jnp.asarray(B, dtype=int),
    }
    for k, v in repl.items():
        buf = eqx.tree_at(lambda b, k=k: getattr(b, k), buf, v)
    return pol, buf


def oracle_sac(ctx: Ctx, case):
    B = len(case["rewards"])
    pol, buf = _sac_batch(case)
    algo = transplant(_sac(B, case["autotune"]), _sac_kw(B, case["autotune"]), gamma=float(case["gamma"]))
    ks = jr.split(jr.key(case["k_nets"]), 4)
    qf1, qf2, qf1_t, qf2_t = [SoftQNetwork(NS, 2, width_size=8, depth=1, key=k) for k in ks]
    q_params = (eqx.filter(qf1, eqx.is_inexact_array), eqx.filter(qf2, eqx.is_inexact_array))
    q_opt_state = _warm(algo.q_optimizer, algo.q_optimizer.init(q_params), q_params, jr.key(case["k_nets"] + 1))
    opt_state = algo.optimizer.init(eqx.filter(pol, eqx.is_inexact_array))
    log_alpha = jnp.log(jnp.asarray(case["alpha"]))
    alpha_opt_state = algo.alpha_optimizer.init(log_alpha)
    tent = jnp.asarray(-2.0)
    tags = {"algo": "SAC"}
    outs = {}
    for it in (0, 1):
        outs[it] = _sac_train(algo, pol, opt_state, buf, qf1, qf2, qf1_t, qf2_t, q_opt_state, log_alpha, alpha_opt_state, tent, jnp.asarray(it), jr.key(case["key"]))
    q_loss = float(outs[0][7]["q_loss"])
    # reference (float64, from the statement); the buffer holds exactly B rows, so the
    # without-replacement sample is a permutation and the means are permutation invariant
    s, s2 = np.asarray(case["s"], int), np.asarray(case["s2"], int)
    obs, nobs = np.eye(NS)[s], np.eye(NS)[s2]
    act = np.asarray(case["act"], np.float64)
    anext = np.asarray(case["atab"], np.float64)[s2]
    lpn = np.asarray(case["lptab"], np.float64)[s2]
    f = lambda net, o, a_: np.asarray(jax.vmap(net)(jnp.asarray(o), jnp.asarray(a_)), np.float64)
    q1n, q2n = f(qf1_t, nobs, anext), f(qf2_t, nobs, anext)
    r = np.asarray(case["rewards"], np.float64)
    terminated = np.asarray(case["dones"], bool) & ~np.asarray(case["timeouts"], bool)
    alpha, gamma = case["alpha"], case["gamma"]
    y = r + gamma * (1.0 - terminated) * (np.minimum(q1n, q2n) - alpha * lpn)
    q1, q2 = f(qf1, obs, act), f(qf2, obs, act)
    ref = 0.5 * np.mean((q1 - y) ** 2) + 0.5 * np.mean((q2 - y) ** 2)
    if not np.isclose(q_loss, ref, rtol=1e-9, atol=1e-10):
        nd = 1.0 - np.asarray(case["dones"], bool)
        alts = {
            "bootstraps-through-termination": r + gamma * (np.minimum(q1n, q2n) - alpha * lpn),
            "no-bootstrap-through-truncation": r + gamma * nd * (np.minimum(q1n, q2n) - alpha * lpn),
            "max-of-target-critics": r + gamma * (1.0 - terminated) * (np.maximum(q1n, q2n) - alpha * lpn),
            "entropy-term-missing": r + gamma * (1.0 - terminated) * np.minimum(q1n, q2n),
            "entropy-term-wrong-sign": r + gamma * (1.0 - terminated) * (np.minimum(q1n, q2n) + alpha * lpn),
            "entropy-term-outside-termination-mask": r + gamma * ((1.0 - terminated) * np.minimum(q1n, q2n) - alpha * lpn),
            "target-from-online-critics": r + gamma * (1.0 - terminated) * (np.minimum(f(qf1, nobs, anext), f(qf2, nobs, anext)) - alpha * lpn),
        }
        for name, y2 in alts.items():
            if np.isclose(q_loss, 0.5 * np.mean((q1 - y2) ** 2) + 0.5 * np.mean((q2 - y2) ** 2), rtol=1e-9, atol=1e-10):
                ctx.fail(f"C07/sac/{name}", tags=tags, observed=q_loss, expected=ref)
                break
        else:
            ctx.fail("C07/sac/q-loss-not-the-td-objective", tags=tags, observed=q_loss, expected=ref)
    # the critic update is the optimiser step on the semi-gradient (targets constant)
    yj = jnp.asarray(y)

    def ref_loss(qs):
        a1 = jax.vmap(qs[0])(jnp.asarray(obs), jnp.asarray(act))
        a2 = jax.vmap(qs[1])(jnp.asarray(obs), jnp.asarray(act))
        return 0.5 * jnp.mean((a1 - yj) ** 2) + 0.5 * jnp.mean((a2 - yj) ** 2)

    g = eqx.filter_grad(ref_loss)((qf1, qf2))
    upd, _ = algo.q_optimizer.update(g, q_opt_state, q_params)
    exp1, exp2 = eqx.apply_updates((qf1, qf2), upd)
    for got, exp, nm in ((outs[0][2], exp1, "qf1"), (outs[0][3], exp2, "qf2")):
        for lg, le in zip(jax.tree.leaves(eqx.filter(got, eqx.is_inexact_array)), jax.tree.leaves(eqx.filter(exp, eqx.is_inexact_array))):
            ctx.close(lg, le, "C07/sac/critic-update-not-semi-gradient-step", rtol=1e-7, atol=1e-9, tags=tags, net=nm)
    # the actor loss does not move the critics: iteration 0 updates the actor, iteration 1 does not
    same = all(
        np.array_equal(np.asarray(x), np.asarray(y_))
        for x, y_ in zip(jax.tree.leaves(eqx.filter((outs[0][2], outs[0][3]), eqx.is_inexact_array)), jax.tree.leaves(eqx.filter((outs[1][2], outs[1][3]), eqx.is_inexact_array)))
    )
    ctx.check(same, "C07/sac/actor-update-moves-critics", tags=tags)
    fl = _flags(case)
    mixed = bool((q1n < q2n).any() and (q1n > q2n).any())
    ctx.count(
        nontrivial=fl["timeout"] and fl["terminated"] and fl["ordinary"] and mixed,
        classes=[k for k, v in fl.items() if v] + ["min_mixed"] * mixed + [f"B={B}"],
        key=[case["dones"], case["timeouts"], round(gamma, 4), case["k_nets"] % 64],
    )


# ----------------------------------------------------------------------------- through iteration()
# (algo, nS, nA, act_shape, buffer_size, learning_starts, num_envs, num_steps); batch_size = all rows stored after one iteration
IT_COMBOS = {
    "dqn-1env": ("DQN", 4, 3, None, 64, 5, 1, 4),
    "dqn-2env": ("DQN", 3, 2, None, 40, 2, 2, 4),
    "sac-1env": ("SAC", 4, 3, (), 64, 4, 1, 3),
    "sac-2env": ("SAC", 4, 3, (), 50, 2, 2, 4),
}


def _it_kw(combo):
    name, nS, nA, shape, B, L, E, S = IT_COMBOS[combo]
    bs = E * (L + S)
    if name == "DQN":
        return dict(buffer_size=B, learning_starts=L, num_envs=E, num_steps=S, batch_size=bs, learning_rate=1e-2, target_update_interval=3)
    return dict(buffer_size=B, learning_starts=L, num_envs=E, num_steps=S, batch_size=bs, policy_lr=0.0, q_lr=1e-2, q_width_size=8, q_depth=1)


@functools.lru_cache(maxsize=None)
def _it_algo(combo):
    return (DQN if IT_COMBOS[combo][0] == "DQN" else SAC)(**_it_kw(combo))


@eqx.filter_jit
def _it_reset(algo, env, policy, key, cb):
    return algo.reset(env, policy, key=key, callback=cb)


@eqx.filter_jit
def _it_iterate(algo, state, key, cb):
    return algo.iteration(state, key=key, callback=cb)


def _stored_rows(buf, E):
    pos = np.asarray(buf.position).reshape(-1)

    def take(x):
        x = np.asarray(x)
        return x[: pos[0]] if E == 1 else np.concatenate([x[e, : pos[e]] for e in range(E)])

    return {f: jax.tree.map(take, getattr(buf, f)) for f in ("observations", "next_observations", "actions", "rewards", "dones", "timeouts", "states", "next_states")}, int(pos.sum())


def _leaves_close(ctx, got, exp, bucket, tags, **kw):
    ok = True
    for lg, le in zip(jax.tree.leaves(eqx.filter(got, eqx.is_inexact_array)), jax.tree.leaves(eqx.filter(exp, eqx.is_inexact_array))):
        ok &= bool(np.allclose(np.asarray(lg), np.asarray(le), rtol=1e-7, atol=1e-9))
    return ok


def oracle_iteration(ctx: Ctx, case):
    """The real iteration() from a state whose target networks differ from the online ones: the online networks it returns
    equal one optimiser step on the semi-gradient of the TD objective whose targets come from the *state's target networks*
    (batch = every stored row, so the sample is a permutation and the objective is known without the sampling key)."""
    from vlib.doubles import StashCallback, TableSACPolicy

    combo = case["combo"]
    name, nS, nA, shape, B, L, E, S = IT_COMBOS[combo]
    spec = case["spec"]
    env = mdp.make_env(spec)
    gamma = case["gamma"]
    algo = transplant(_it_algo(combo), _it_kw(combo), gamma=float(gamma))
    cb = StashCallback(())
    tags = {"algo": name, "via": "iteration"}
    if name == "DQN":
        policy = TableQPolicy(env, spec, case["q"], case["epsilon"], w=case["w"])
        target = TableQPolicy(env, spec, case["q_t"], case["epsilon"], w=case["w_t"])
        state = _it_reset(algo, env, policy, jr.key(case["key"]), cb)
        state = eqx.tree_at(lambda s_: s_.target_policy, state, target)
        state = eqx.tree_at(lambda s_: s_.opt_state, state, _warm(algo.optimizer, state.opt_state, eqx.filter(policy, eqx.is_inexact_array), jr.key(case["key"] + 5)))
    else:
        policy = TableSACPolicy(env, spec, case["atab"], 0.0)
        state = _it_reset(algo, env, policy, jr.key(case["key"]), cb)
        k1, k2 = jr.split(jr.key(case["k_nets"]))
        like = state.qf1
        fresh = lambda k: jax.tree.map(lambda x, n: n if eqx.is_inexact_array(x) else x, like, jax.tree.map(lambda x: x, _randomised(like, k)))
        state = eqx.tree_at(lambda s_: (s_.qf1_target, s_.qf2_target), state, (fresh(k1), fresh(k2)))
        q_params0 = (eqx.filter(state.qf1, eqx.is_inexact_array), eqx.filter(state.qf2, eqx.is_inexact_array))
        state = eqx.tree_at(lambda s_: s_.q_opt_state, state, _warm(algo.q_optimizer, state.q_opt_state, q_params0, jr.key(case["key"] + 5)))
    new = _it_iterate(algo, state, jr.key(case["key"] + 1), cb)
    rows, n = _stored_rows(new.step_state.buffer, E)
    if n != E * (L + S):
        raise AssertionError("harness: unexpected number of stored rows")  # C05's business; the objective below needs all rows
    r = np.asarray(rows["rewards"], np.float64)
    # "terminated" is the environment's terminal predicate on the successor state (decoded from the stored successor
    # observation), not the buffer's own done/timeout columns: a row that terminates *and* hits the time limit must not bootstrap
    interp = mdp.Interp(spec)
    terminated = np.asarray([bool(interp.T[interp.decode_obs(jax.tree.map(lambda x, i=i: np.asarray(x)[i], rows["next_observations"]))[0]]) for i in range(n)])
    # rows are in insertion order per environment (no wrap-around here), so the episode clock can be replayed
    at_limit, per_env = np.zeros(n, bool), n // E
    for e in range(E):
        c = 0
        for i in range(e * per_env, (e + 1) * per_env):
            c += 1
            at_limit[i] = c >= spec["time_limit"]
            if bool(np.asarray(rows["dones"])[i]):
                c = 0
    fl = {"timeout": bool(np.asarray(rows["timeouts"]).any()), "terminated": bool(terminated.any()), "ordinary": bool((~np.asarray(rows["dones"], bool)).any()), "terminated_at_time_limit": bool((terminated & at_limit).any())}
    obs, nobs = jax.tree.map(jnp.asarray, rows["observations"]), jax.tree.map(jnp.asarray, rows["next_observations"])
    if name == "DQN":
        sts, nsts = jax.tree.map(jnp.asarray, rows["states"]), jax.tree.map(jnp.asarray, rows["next_states"])
        acts = np.asarray(rows["actions"]).astype(int)
        qn_on = np.asarray(jax.vmap(policy.q_values)(nsts, nobs)[1], np.float64)
        qn_tg = np.asarray(jax.vmap(target.q_values)(nsts, nobs)[1], np.float64)
        best = qn_on.argmax(-1)
        ar = np.arange(n)
        ys = {
            "ok": r + gamma * (1.0 - terminated) * qn_tg[ar, best],
            "target-from-online-network": r + gamma * (1.0 - terminated) * qn_on[ar, best],
            "not-double-dqn": r + gamma * (1.0 - terminated) * qn_tg.max(-1),
            "bootstraps-through-termination": r + gamma * qn_tg[ar, best],
            "no-bootstrap-through-truncation": r + gamma * (1.0 - np.asarray(rows["dones"], bool)) * qn_tg[ar, best],
        }

        def step(y):
            yj = jnp.asarray(y)

            def ref_loss(pol):
                q = jax.vmap(pol.q_values)(sts, obs)[1]
                return jnp.mean(jnp.square(q[jnp.arange(n), jnp.asarray(acts)] - yj)) / 2

            g = eqx.filter_grad(ref_loss)(policy)
            upd, _ = algo.optimizer.update(g, state.opt_state, eqx.filter(policy, eqx.is_inexact_array))
            return eqx.apply_updates(policy, upd)

        got = new.policy
        mixed = bool((best != qn_tg.argmax(-1)).any()) and not np.allclose(ys["ok"], ys["target-from-online-network"])
    else:
        acts = jnp.asarray(rows["actions"], dtype=float)
        a2 = jax.vmap(lambda o: policy.action_and_log_prob(None, o, key=jr.key(0))[1])(nobs)
        f = lambda net, o, a_: np.asarray(jax.vmap(net)(o, a_), np.float64)
        q1t, q2t = f(state.qf1_target, nobs, a2), f(state.qf2_target, nobs, a2)
        q1o, q2o = f(state.qf1, nobs, a2), f(state.qf2, nobs, a2)
        nt = 1.0 - terminated
        ys = {
            "ok": r + gamma * nt * np.minimum(q1t, q2t),
            "target-from-online-critics": r + gamma * nt * np.minimum(q1o, q2o),
            "second-critic-not-the-target-network": r + gamma * nt * np.minimum(q1t, q2o),
            "first-critic-not-the-target-network": r + gamma * nt * np.minimum(q1o, q2t),
            "max-of-target-critics": r + gamma * nt * np.maximum(q1t, q2t),
            "bootstraps-through-termination": r + gamma * np.minimum(q1t, q2t),
            "no-bootstrap-through-truncation": r + gamma * (1.0 - np.asarray(rows["dones"], bool)) * np.minimum(q1t, q2t),
        }
        q_params = (eqx.filter(state.qf1, eqx.is_inexact_array), eqx.filter(state.qf2, eqx.is_inexact_array))

        def step(y):
            yj = jnp.asarray(y)

            def ref_loss(qs):
                a1 = jax.vmap(qs[0])(obs, acts)
                a2_ = jax.vmap(qs[1])(obs, acts)
                return 0.5 * jnp.mean((a1 - yj) ** 2) + 0.5 * jnp.mean((a2_ - yj) ** 2)

            g = eqx.filter_grad(ref_loss)((state.qf1, state.qf2))
            upd, _ = algo.q_optimizer.update(g, state.q_opt_state, q_params)
            return eqx.apply_updates((state.qf1, state.qf2), upd)

        got = (new.qf1, new.qf2)
        mixed = bool((q1t < q2t).any() and (q1t > q2t).any())
    if not _leaves_close(ctx, got, step(ys["ok"]), None, tags):
        for nm, y in ys.items():
            if nm != "ok" and _leaves_close(ctx, got, step(y), None, tags):
                ctx.fail(f"C07/iteration/{nm}", tags=tags, combo=combo)
                break
        else:
            ctx.fail("C07/iteration/update-not-the-step-on-the-td-objective-with-the-states-target-networks", tags=tags, combo=combo)
    ctx.count(
        nontrivial=mixed and (fl["timeout"] or fl["terminated"]),
        classes=[k for k, v in fl.items() if v] + ["mixed"] * mixed + [combo],
        key=[combo, fl["timeout"], fl["terminated"], mixed, case["key"] % 128],
    )


def _warm(optimizer, opt_state, params, key):
    """An optimiser state with non-zero moments: the very first Adam step is lr*sign(g) and therefore blind to the scale of
    the gradient (and so to gamma or a wrong target); after one step on a random gradient the update depends on g itself."""
    g = _randomised(params, key)
    return optimizer.update(g, opt_state, params)[1]


def _randomised(tree, key):
    leaves, treedef = jax.tree.flatten(tree)
    keys = jr.split(key, len(leaves))
    return jax.tree.unflatten(treedef, [jr.normal(k, x.shape, x.dtype) * 0.7 if eqx.is_inexact_array(x) else x for k, x in zip(keys, leaves)])


PARTS = {"dqn": oracle_dqn, "sac": oracle_sac, "iteration": oracle_iteration}


# ----------------------------------------------------------------------------- strategies
_fl = st.one_of(st.integers(-5, 5).map(float), st.floats(-10, 10, allow_nan=False).map(lambda x: round(x, 3)))


@st.composite
def _rows(draw, B):
    combos = [(False, False), (True, False), (True, True)]
    flags = [draw(st.sampled_from(combos + [(False, True)] if draw(st.integers(0, 9)) == 0 else combos)) for _ in range(B)]
    if B >= 3 and draw(st.booleans()):
        flags[:3] = combos
    return {
        "s": [draw(st.integers(0, NS - 1)) for _ in range(B)],
        "s2": [draw(st.integers(0, NS - 1)) for _ in range(B)],
        "rewards": [draw(_fl) for _ in range(B)],
        "dones": [f[0] for f in flags],
        "timeouts": [f[1] for f in flags],
        "gamma": draw(st.one_of(st.sampled_from([0.99, 1.0, 0.0, 0.9]), st.floats(0, 1, allow_nan=False))),
    }


@st.composite
def dqn_cases(draw, B, kind):
    case = draw(_rows(B))
    case["a"] = [draw(st.integers(0, NA - 1)) for _ in range(B)]
    case["kind"] = kind
    if kind == "table":
        case["q_on"] = [[draw(_fl) for _ in range(NA)] for _ in range(NS)]
        case["q_tg"] = [[draw(_fl) for _ in range(NA)] for _ in range(NS)]
        if draw(st.booleans()):  # Q-values that depend on the (recurrent) policy state
            case["w_on"] = [draw(_fl) for _ in range(NA)]
            case["w_tg"] = [draw(_fl) for _ in range(NA)]
        case["n_state"] = [draw(st.integers(0, 6)) for _ in range(B)]
    else:
        case["k_on"] = draw(st.integers(0, 2**31 - 1))
        case["k_tg"] = draw(st.integers(0, 2**31 - 1))
    return case


@st.composite
def sac_cases(draw, B):
    case = draw(_rows(B))
    u = st.floats(-1, 1, allow_nan=False).map(lambda x: round(x, 3))
    case["act"] = [[draw(u), draw(u)] for _ in range(B)]
    case["atab"] = [[draw(u), draw(u)] for _ in range(NS)]
    case["lptab"] = [draw(st.floats(-4, 2, allow_nan=False).map(lambda x: round(x, 3))) for _ in range(NS)]
    case["alpha"] = draw(st.one_of(st.sampled_from([0.2, 1.0, 2.0]), st.floats(0.01, 2.0, allow_nan=False)))
    case["k_nets"] = draw(st.integers(0, 2**31 - 1))
    case["key"] = draw(st.integers(0, 2**31 - 1))
    case["autotune"] = draw(st.booleans())
    return case


@st.composite
def iteration_cases(draw, combo):
    name, nS, nA, shape, B, L, E, S = IT_COMBOS[combo]
    spec = draw(mdp.mdp_specs(fixed_sizes=(nS, nA), act_kind="discrete" if name == "DQN" else "box", act_shape=shape if shape is not None else (), fixed_time_limit="some", time_limits=(1, 2, 3, 4, 6)))
    case = {"combo": combo, "spec": spec, "key": draw(st.integers(0, 2**31 - 100)), "gamma": draw(st.sampled_from([0.99, 0.9, 0.5, 1.0]))}
    cell = st.floats(-3, 3, allow_nan=False).map(lambda x: round(x, 3))
    if name == "DQN":
        for k in ("q", "q_t"):
            case[k] = [[draw(cell) for _ in range(nA)] for _ in range(nS)]
        stateful = draw(st.booleans())
        for k in ("w", "w_t"):
            case[k] = [draw(cell) if stateful else 0.0 for _ in range(nA)]
        case["epsilon"] = draw(st.sampled_from([0.3, 1.0, 0.05]))
    else:
        low, high = spec["act_low"], spec["act_high"]
        case["atab"] = [draw(st.floats(low, high, allow_nan=False).map(lambda x: round(x, 3))) for _ in range(nS)]
        case["k_nets"] = draw(st.integers(0, 2**31 - 1))
    return case


def run(ctx: Ctx):
    ctx.rule = (
        "Generated batches (rewards, all done/timeout combinations, actions, states), gamma, alpha and network parameters "
        "(drawn Q tables so that online and target argmax differ; real MLP Q-networks / SoftQNetworks from drawn keys): "
        "DQN.dqn_loss value and online gradient vs float64 reference r+gamma*(1-terminated)*Q_tgt(s',argmax Q_on(s')); "
        "SAC.sac_train on a buffer holding exactly batch_size rows with a deterministic policy double: reported q_loss, the critic "
        "update (Adam step on the semi-gradient) and critic invariance to the actor update. Non-trivial: batch with a timeout row, a "
        "true-termination row and an ordinary row, online/target argmax differing (DQN) or min over critics mixed (SAC). "
        "Part iteration: the real DQN/SAC reset()+iteration() on generated finite MDPs (1 and 2 envs) from a state whose target "
        "networks were replaced by independent ones, batch_size = every stored row: the returned online networks equal one optimiser "
        "step on the semi-gradient of the TD objective built from the state's target networks (alternatives are diagnosed by name)."
    )
    ctx.assumptions = ["the networks' own per-row outputs are trusted (q_values / SoftQNetwork.__call__)", "x64", "optax.adam as the configured optimiser"]
    for B in (1, 6, 16):
        for kind in ("table", "mlp"):
            ctx.run_given("dqn", dqn_cases(B, kind), oracle_dqn, ctx.n(150, 4000))
    for B in (1, 6, 16) if not ctx.quick else (6, 16):
        ctx.run_given("sac", sac_cases(B), oracle_sac, ctx.n(100, 2500))
    for combo in IT_COMBOS:
        ctx.run_given("iteration", iteration_cases(combo), oracle_iteration, ctx.n(40, 800), shrink=False)
    ctx.require_fraction("iteration", "nontrivial", 0.2)
    ctx.require_fraction("dqn", "nontrivial", 0.05)
    ctx.require_fraction("sac", "nontrivial", 0.05)
