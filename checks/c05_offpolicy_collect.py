"""C05 — off-policy collection stores exactly the transitions that happened."""

from __future__ import annotations

import functools

import jax

jax.config.update("jax_enable_x64", True)

import equinox as eqx
import numpy as np
from hypothesis import strategies as st
from jax import numpy as jnp
from jax import random as jr

from lerax.algorithm import DQN, SAC
from lerax.callback import CallbackList
from vlib import mdp
from vlib.doubles import StashCallback, TableQPolicy, TableSACPolicy
from vlib.runner import Ctx

# (algo, nS, nA, act_shape, buffer_size, learning_starts, num_envs, num_steps)  — all static => one compile each
COMBOS = {
    "dqn-1env-nowrap": ("DQN", 4, 3, None, 64, 5, 1, 4),
    "dqn-1env-wrap": ("DQN", 4, 3, None, 6, 9, 1, 4),
    "dqn-3env-wrap": ("DQN", 4, 3, None, 16, 4, 3, 3),  # capacity 5 per env; learning_starts != num_steps
    "dqn-2env-ls0": ("DQN", 3, 2, None, 40, 0, 2, 5),
    "sac-1env": ("SAC", 4, 3, (), 64, 4, 1, 3),
    "sac-3env-wrap": ("SAC", 3, 2, (2,), 12, 6, 3, 2),  # capacity 4 per env, warm-up 6 > capacity
    "sac-2env": ("SAC", 4, 3, (), 50, 2, 2, 4),
}


@functools.lru_cache(maxsize=None)
def _algo(combo: str):
    name, nS, nA, shape, B, L, E, S = COMBOS[combo]
    if name == "DQN":
        return DQN(buffer_size=B, learning_starts=L, num_envs=E, num_steps=S, batch_size=1, learning_rate=0.0, target_update_interval=2)
    return SAC(buffer_size=B, learning_starts=L, num_envs=E, num_steps=S, batch_size=1, policy_lr=0.0, q_lr=1e-3, q_width_size=8, q_depth=1)


@eqx.filter_jit
def _reset(algo, env, policy, key, cb):
    return algo.reset(env, policy, key=key, callback=cb)


@eqx.filter_jit
def _iterate(algo, state, key, cb):
    return algo.iteration(state, key=key, callback=cb)


def _row(tree, i):
    return jax.tree.map(lambda x: np.asarray(x)[i], tree)


def walk_stream(ctx: Ctx, spec, interp, buf, e, E, cap, n_from, n_to, start, tags, atab=None, final=None, chooser=None):
    """Check rows with insertion numbers n_from..n_to-1 of environment e against the interpreter.
    start = (s, c, p, acc) or None (unknown: derive from the first row)."""
    pick = (lambda x: np.asarray(x)) if E == 1 else (lambda x: np.asarray(x)[e])
    obs, nobs = jax.tree.map(pick, buf.observations), jax.tree.map(pick, buf.next_observations)
    acts, rews = pick(buf.actions), pick(buf.rewards)
    dones, touts = pick(buf.dones), pick(buf.timeouts)
    st_n, nst_n = pick(buf.states.n), pick(buf.next_states.n)
    flags = dict(done=False, timeout=False, term=False, both=False, clip=False, wrapped=n_to > cap)
    if start is None:
        i0 = n_from % cap
        s, acc = interp.decode_obs(_row(obs, i0))
        p = int(st_n[i0])
        c = p
    else:
        s, c, p, acc = start
    for n in range(n_from, n_to):
        i = n % cap
        ctx.check(interp.obs_equal(_row(obs, i), s, acc), "C05/observation-not-the-one-acted-on", tags=tags, n=n, env=e, expected=interp.obs(s, acc), observed=_row(obs, i))
        a = acts[i]
        if atab is not None:
            ctx.check(np.array_equal(np.asarray(a, np.float64), np.asarray(atab[s], np.float64)), "C05/stored-action-not-the-chosen-one", tags=tags, n=n, chosen=atab[s], stored=a)
        if chooser is not None:
            exp_a = chooser(s, p)
            if exp_a is not None:
                ctx.check(int(a) == int(exp_a), "C05/stored-action-not-the-current-policys-choice", tags=tags, n=n, env=e, state=s, stored=int(a), expected=int(exp_a))
        ca = interp.clip(a)
        if interp.box and not np.array_equal(ca, np.asarray(a, np.float64)):
            flags["clip"] = True
        s2, c2, r, term, trunc = interp.step(s, c, ca)
        acc2 = float(np.asarray(ca).reshape(-1)[0]) if interp.box else 0.0
        ctx.check(interp.obs_equal(_row(nobs, i), s2, acc2), "C05/next-observation-not-pre-reset-successor", tags=tags, n=n, env=e, done=term or trunc, expected=interp.obs(s2, acc2), observed=_row(nobs, i))
        if not np.isclose(rews[i], r, rtol=1e-9, atol=1e-9):
            r_unclipped = None
            if interp.box:
                r_unclipped = r - float(np.sum(interp.K * ca)) + float(np.sum(interp.K * np.asarray(a, np.float64)))
            if r_unclipped is not None and np.isclose(rews[i], r_unclipped, rtol=1e-9, atol=1e-9):
                ctx.fail("C05/reward-computed-with-unclipped-action", tags=tags, n=n, observed=float(rews[i]), expected=r, action=a, executed=ca)
            else:
                ctx.fail("C05/reward-not-of-executed-transition", tags=tags, n=n, observed=float(rews[i]), expected=r)
        ctx.check(bool(dones[i]) == (term or trunc), "C05/done-flag", tags=tags, n=n, term=term, trunc=trunc, observed=bool(dones[i]))
        ctx.check(bool(touts[i]) == (trunc and not term), "C05/timeout-flag", tags=tags, n=n, term=term, trunc=trunc, observed=bool(touts[i]))
        ctx.check(int(st_n[i]) == p and int(nst_n[i]) == p + 1, "C05/stored-policy-states", tags=tags, n=n, expected=[p, p + 1], observed=[int(st_n[i]), int(nst_n[i])])
        if term and trunc:
            flags["both"] = True
        elif term:
            flags["term"] = True
        elif trunc:
            flags["timeout"] = True
        if term or trunc:
            flags["done"] = True
            if n + 1 < n_to:
                ns, nacc = interp.decode_obs(_row(obs, (n + 1) % cap))
            elif final is not None:
                ns, _, nacc = final[0], final[1], final[3]
            else:
                ns, nacc = None, 0.0
            if ns is not None:
                ctx.check(bool(interp.I[ns]) and nacc == 0.0, "C05/post-done-state-not-initial", tags=tags, n=n, state=ns)
                s = ns
            c, p, acc = 0, 0, 0.0
        else:
            s, c, p, acc = s2, c2, p + 1, acc2
    return flags, (s, c, p, acc)


def oracle_collect(ctx: Ctx, case):
    combo = case["combo"]
    name, nS, nA, shape, B, L, E, S = COMBOS[combo]
    spec = case["spec"]
    env = mdp.make_env(spec)
    interp = mdp.Interp(spec)
    if name == "DQN":
        policy = TableQPolicy(env, spec, case["q"], case["epsilon"])
        atab = None
    else:
        policy = TableSACPolicy(env, spec, case["atab"], 0.0)
        atab = np.asarray(case["atab"], np.float64)
    algo = eqx.tree_at(lambda a: a.gamma, _algo(combo), jnp.asarray(0.9))
    cb = StashCallback(())
    tags = {"algo": name}
    cap = B // E if E > 1 else B
    state = _reset(algo, env, policy, jr.key(case["key"]), cb)
    carried = [None] * E
    allflags = set()
    total = L
    for k in range(case["iters"] + 1):
        if k > 0:
            state = _iterate(algo, state, jr.key(case["key"] + k), cb)
            total = L + k * S
        buf = state.step_state.buffer
        pos = np.asarray(buf.position).reshape(-1)
        ctx.check(pos.shape == (E,) and bool(np.all(pos == total)), "C05/per-env-insertion-count", tags=tags, after="reset" if k == 0 else f"iteration {k}", expected=total, observed=pos.tolist())
        ctx.check(np.asarray(buf.rewards).shape == ((cap,) if E == 1 else (E, cap)), "C05/per-env-capacity", tags=tags, shape=list(np.asarray(buf.rewards).shape), cap=cap)
        for e in range(E):
            ss = state.step_state if E == 1 else jax.tree.map(lambda x: x[e], state.step_state)
            fs, fc, facc = mdp.read_state(spec, ss.env_state)
            final = (fs, fc, int(ss.policy_state.n), facc)
            if k == 0:
                n_from, n_to = max(0, L - cap), L
                start = (None if n_from > 0 else "fresh")
            else:
                n_from, n_to = total - min(S, cap), total
                start = carried[e] if S <= cap else None
            if n_to == n_from:
                # nothing stored yet (learning_starts == 0): the carried state must be a fresh initial state
                ctx.check(bool(interp.I[fs]) and fc == 0 and final[2] == 0, "C05/initial-state", tags=tags)
                carried[e] = (fs, 0, 0, 0.0)
                continue
            if start == "fresh":
                s0, _ = interp.decode_obs(_row(jax.tree.map((lambda x: np.asarray(x)) if E == 1 else (lambda x: np.asarray(x)[e]), buf.observations), 0))
                ctx.check(bool(interp.I[s0]), "C05/first-state-not-initial", tags=tags, s=s0)
                start = (s0, 0, 0, 0.0)
            flags, end = walk_stream(ctx, spec, interp, buf, e, E, cap, n_from, n_to, start, tags, atab=atab, final=final)
            allflags |= {f for f, v in flags.items() if v}
            s, c, p, acc = end
            ctx.check((fs, facc) == (s, acc), "C05/carried-env-state", tags=tags, expected=[s, acc], observed=[fs, facc])
            if spec["time_limit"] is not None:
                ctx.check(fc == c, "C05/carried-time-limit-counter", tags=tags, expected=c, observed=fc)
            ctx.check(final[2] == p, "C05/carried-policy-state", tags=tags, expected=p, observed=final[2])
            carried[e] = (fs, fc, final[2], facc)
    nontrivial = bool(allflags & {"done", "clip", "wrapped"})
    ctx.count(nontrivial=nontrivial, classes=sorted(allflags) + [combo], key=[combo, sorted(allflags), spec["time_limit"], case["key"] % 128])


# ----------------------------------------------------------------------------- built-in environments
@functools.lru_cache(maxsize=None)
def _classic_algo(name, E):
    if name == "CartPole":
        return DQN(buffer_size=64, learning_starts=3, num_envs=E, num_steps=3, batch_size=2, learning_rate=0.0, target_update_interval=2)
    return SAC(buffer_size=64, learning_starts=3, num_envs=E, num_steps=3, batch_size=2, policy_lr=0.0, q_lr=1e-3, q_width_size=8, q_depth=1)


def oracle_classic_collect(ctx: Ctx, case):
    """Same storage law on CartPole (DQN, MLPQPolicy) / Pendulum (SAC, MLPSACPolicy) under a TimeLimit; the
    oracle is the environment's own functional API applied to the state each stored row started from."""
    from checks.c01_step_reset import _classic_state, classic_fresh
    from checks.c04_onpolicy_rollout import _classic_tl, _env_parts
    from lerax.policy import MLPQPolicy, MLPSACPolicy

    name, E, N = case["env"], case["E"], case["time_limit"]
    env = eqx.tree_at(lambda e: e.max_episode_steps, _classic_tl(name), jnp.asarray(N, dtype=int))
    if name == "CartPole":
        policy = MLPQPolicy(env, epsilon=0.5, width_size=8, depth=1, key=jr.key(case["pkey"]))
    else:
        policy = MLPSACPolicy(env, feature_size=4, width_size=8, depth=1, key=jr.key(case["pkey"]))
    algo = eqx.tree_at(lambda a: a.gamma, _classic_algo(name, E), jnp.asarray(0.9))
    cb = StashCallback(())
    fresh = classic_fresh(name)
    tags = {"algo": type(algo).__name__, "env": name}
    cap = 64 // E if E > 1 else 64
    state = _reset(algo, env, policy, jr.key(case["key"]), cb)
    L, S = 3, 3
    flags = set()

    def decode(o):
        o = np.asarray(o, np.float64)
        y = o if name == "CartPole" else np.array([np.arctan2(o[1], o[0]), o[2]])
        return y.tolist()

    carried = [None] * E
    total = 0
    for k in range(case["iters"] + 1):
        if k > 0:
            state = _iterate(algo, state, jr.key(case["key"] + k), cb)
        n_from, n_to = (0, L) if k == 0 else (L + (k - 1) * S, L + k * S)
        buf = state.step_state.buffer
        pos = np.asarray(buf.position).reshape(-1)
        ctx.check(bool(np.all(pos == n_to)), "C05/per-env-insertion-count", tags=tags, expected=n_to, observed=pos.tolist())
        for e in range(E):
            pick = (lambda x: np.asarray(x)) if E == 1 else (lambda x, e=e: np.asarray(x)[e])
            obs, nobs, acts = pick(buf.observations), pick(buf.next_observations), pick(buf.actions)
            rews, dones, touts = pick(buf.rewards), pick(buf.dones), pick(buf.timeouts)
            ss = state.step_state if E == 1 else jax.tree.map(lambda x, e=e: x[e], state.step_state)
            st_ = carried[e]
            if st_ is None:
                st_ = _classic_state(env, name, decode(obs[0]), 0.0, 0)
                ctx.check(fresh(st_) is None, "C05/first-state-not-initial", tags=tags, why=fresh(st_))
            for n in range(n_from, n_to):
                a = acts[n]
                ca = np.clip(a, np.asarray(env.action_space.low), np.asarray(env.action_space.high)) if name != "CartPole" else a
                nxt, o_t, o_next, r, term, trunc = _env_parts(env, st_, jnp.asarray(ca, dtype=acts.dtype))
                ctx.close(obs[n], o_t, "C05/observation-not-the-one-acted-on", tags=tags, rtol=1e-9, atol=1e-9, n=n)
                ctx.close(nobs[n], o_next, "C05/next-observation-not-pre-reset-successor", tags=tags, rtol=1e-9, atol=1e-9, n=n, done=bool(term) or bool(trunc))
                ctx.close(rews[n], r, "C05/reward-not-of-executed-transition", tags=tags, rtol=1e-9, atol=1e-9, n=n)
                term, trunc = bool(term), bool(trunc)
                ctx.check(bool(dones[n]) == (term or trunc), "C05/done-flag", tags=tags, n=n)
                ctx.check(bool(touts[n]) == (trunc and not term), "C05/timeout-flag", tags=tags, n=n, term=term, trunc=trunc)
                flags |= {"both"} if term and trunc else {"term"} if term else {"timeout"} if trunc else set()
                if term or trunc:
                    if n + 1 < n_to:
                        st_ = _classic_state(env, name, decode(obs[n + 1]), 0.0, 0)
                    else:
                        st_ = ss.env_state
                    ctx.check(fresh(st_) is None, "C05/post-done-state-not-initial", tags=tags, n=n, why=fresh(st_))
                else:
                    st_ = nxt
            from checks.c01_step_reset import tree_close

            ctx.check(tree_close(ss.env_state, st_, 1e-9, 1e-9), "C05/carried-env-state", tags=tags)
            carried[e] = ss.env_state
    ctx.count(nontrivial=bool(flags), classes=sorted(flags) + [name, f"E={E}", "classic"], key=[name, E, N, sorted(flags), case["key"] % 64])


PARTS = {"collect": oracle_collect, "classic_collect": oracle_classic_collect}


@st.composite
def cases(draw, combo, tl):
    name, nS, nA, shape, B, L, E, S = COMBOS[combo]
    spec = draw(
        mdp.mdp_specs(
            fixed_sizes=(nS, nA),
            act_kind="discrete" if name == "DQN" else "box",
            act_shape=shape if shape is not None else (),
            fixed_time_limit=tl,
            time_limits=(None, 1, 2, 3, 4, 6),
        )
    )
    case = {"combo": combo, "spec": spec, "key": draw(st.integers(0, 2**31 - 100)), "iters": draw(st.integers(1, 3))}
    if name == "DQN":
        case["q"] = [[draw(st.floats(-3, 3, allow_nan=False).map(lambda x: round(x, 3))) for _ in range(nA)] for _ in range(nS)]
        case["epsilon"] = draw(st.sampled_from([0.3, 1.0, 0.05]))
    else:
        low, high = spec["act_low"], spec["act_high"]
        cell = st.one_of(
            st.floats(low, high, allow_nan=False).map(lambda x: round(x, 3)),
            st.sampled_from([low - 0.75, high + 0.5, low - 2.0, high + 1.25, low, high]),
        )
        k = int(np.prod(shape)) if shape else 1
        case["atab"] = [[draw(cell) for _ in range(k)] if shape else draw(cell) for _ in range(nS)]
    return case


@st.composite
def classic_cases(draw, name, E):
    return {"env": name, "E": E, "time_limit": draw(st.integers(1, 6)), "iters": draw(st.integers(1, 2)), "pkey": draw(st.integers(0, 2**31 - 2)), "key": draw(st.integers(0, 2**31 - 100))}


def run(ctx: Ctx):
    ctx.rule = (
        "Finite MDP tables + TimeLimit, behaviour policies with counter state (Q-table with lerax's epsilon-greedy; deterministic "
        "action table with entries outside the Box bounds), (buffer_size, learning_starts, num_envs, num_steps) below and above "
        "per-env capacity -> real reset() (warm-up) and 1-3 iteration() calls of DQN/SAC; every newly stored slot of every "
        "per-env buffer is re-derived by the NumPy interpreter, insertion counts per env are checked after every call. "
        "Part classic_collect: DQN(MLPQPolicy, eps 0.5) on CartPole and SAC(MLPSACPolicy) on Pendulum under TimeLimit 1..6; every "
        "stored row is re-derived with the env's own observation/transition/reward/terminal/truncate from the state it started in. "
        "Non-trivial: a stored done row, a clipped action, or ring wrap-around; distinct by (combo, flags, N, key bucket)."
    )
    ctx.assumptions = ["vlib/mdp.py Interp is the reference semantics", "learning rate 0 keeps the behaviour policy fixed across iterations", "x64"]
    plan = [(c, tl) for c in COMBOS for tl in (("some",) if ctx.quick else ("some", "none"))]
    n = ctx.n(50, 1200)
    for combo, tl in plan:
        if ctx.quick and combo in ("dqn-2env-ls0", "sac-2env"):
            continue
        ctx.run_given("collect", cases(combo, tl), oracle_collect, n)
    for name, E in (("CartPole", 2), ("Pendulum", 1)) if ctx.quick else (("CartPole", 1), ("CartPole", 3), ("Pendulum", 1), ("Pendulum", 2)):
        ctx.run_given("classic_collect", classic_cases(name, E), oracle_classic_collect, ctx.n(30, 500), shrink=False)
    ctx.require_fraction("collect", "done", 0.5)
    ctx.require_fraction("collect", "clip", 0.15)
    ctx.require_fraction("collect", "both", 0.05)
    ctx.require_fraction("collect", "wrapped", 0.2)
