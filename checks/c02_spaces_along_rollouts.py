"""C02 — environments stay inside their declared spaces with well-typed signals."""

from __future__ import annotations

import json

import jax
import numpy as np

import equinox as eqx
from jax import numpy as jnp
from jax import random as jr

from vlib.runner import Ctx, Violation, run_pool

CLASSIC = ["CartPole", "MountainCar", "ContinuousMountainCar", "Pendulum", "Acrobot"]
MUJOCO = ["InvertedPendulum", "InvertedDoublePendulum", "HalfCheetah", "Hopper", "Walker2d", "Swimmer", "Reacher", "Pusher", "Ant", "Humanoid", "HumanoidStandup"]
G1 = ["G1Locomotion", "G1Standing", "G1Standup"]
MODES = ["sample", "low", "high", "zero", "hold", "pump"]


def build_env(name, opts, stack):
    import diffrax

    from lerax import wrapper as W
    from lerax.env import classic_control as cc
    from lerax.env import mujoco as mj
    from lerax.env.unitree import g1
    from lerax.space import Box

    opts = dict(opts)
    if opts.pop("euler", False):
        opts["solver"] = diffrax.Euler()
    if name in CLASSIC:
        env = getattr(cc, name)(**opts)
    elif name in MUJOCO:
        env = getattr(mj, name)(**opts)
    else:
        env = getattr(g1, name)(**opts)
    for w in stack:
        if w == "TimeLimit":
            env = W.TimeLimit(env, 7)
        elif w == "ClipAction":
            env = W.ClipAction(env)
        elif w == "RescaleAction":
            env = W.RescaleAction(env, jnp.asarray(-3.0), jnp.asarray(5.0))
        elif w == "RescaleObservation01":
            env = W.RescaleObservation(env, jnp.asarray(0.0), jnp.asarray(1.0))
        elif w == "RescaleObservationAsym":
            env = W.RescaleObservation(env, jnp.asarray(-2.0), jnp.asarray(5.0))
        elif w == "ClipReward":
            env = W.ClipReward(env, jnp.asarray(-0.5), jnp.asarray(0.25))
        elif w == "Identity":
            env = W.Identity(env)
        elif w == "FlattenObservation":
            env = W.FlattenObservation(env)
        elif w == "ClipObservation":
            env = W.ClipObservation(env)
    return env


def velocity_sign(name, state):
    """Direction of the current velocity (for the energy-pumping action rule), classic control only."""
    s = state
    while hasattr(s, "env_state"):
        s = s.env_state
    y = s.y
    return {"CartPole": y[3], "MountainCar": y[1], "ContinuousMountainCar": y[1], "Pendulum": y[1], "Acrobot": y[3]}[name]


def make_rollout(env, name, T):
    from lerax.space import Box, Discrete

    asp = env.action_space
    is_box = isinstance(asp, Box)
    if is_box:
        lo = jnp.where(jnp.isfinite(asp.low), asp.low, -10.0)
        hi = jnp.where(jnp.isfinite(asp.high), asp.high, 10.0)
    else:
        lo, hi = jnp.asarray(0), jnp.asarray(asp.n - 1)

    def action(mode, key, state, held):
        samp = asp.sample(key=key)
        if is_box:
            zero = jnp.clip(jnp.zeros_like(lo), lo, hi)
            if name in CLASSIC:
                v = velocity_sign(name, state)
                pump = jnp.where(v >= 0, hi, lo)
            else:
                pump = held
            cands = [samp, lo, hi, zero, held, pump]
        else:
            mid = jnp.asarray((asp.n - 1) // 2)
            if name in CLASSIC:
                v = velocity_sign(name, state)
                pump = jnp.where(v >= 0, hi, lo)
            else:
                pump = held
            cands = [samp, lo, hi, mid, held, pump]
        cands = [jnp.asarray(c, dtype=samp.dtype) for c in cands]
        return jax.lax.switch(mode, [lambda c=c: c for c in cands])

    def rollout(key, modes):
        k0, k1, k2 = jr.split(key, 3)
        state, obs, _ = env.reset(key=k0)
        held0 = asp.sample(key=k1)
        if is_box:
            held0 = jnp.where(jr.bernoulli(k1, shape=held0.shape), hi, lo).astype(held0.dtype)

        def body(carry, x):
            state, held = carry
            k, mode = x
            ka, ks = jr.split(k)
            a = action(mode, ka, state, held)
            state2, obs2, r, term, trunc, _ = env.step(state, a, key=ks)
            return (state2, held), (obs2, a, r, term, trunc)

        (_, _), outs = jax.lax.scan(body, (state, held0), (jr.split(k2, T), modes))
        return obs, outs

    return eqx.filter_jit(lambda keys, modes: jax.vmap(rollout)(keys, modes))


def check_env(ctx: Ctx, case):
    from lerax.space import Box

    name, opts, stack, T, n_traj = case["env"], case["opts"], case["stack"], case["T"], case["n_traj"]
    env = build_env(name, opts, stack)
    tags = {"env": name, "stack": "+".join(stack) or "bare"}
    roll = make_rollout(env, name, T)
    rng = np.random.default_rng(case["key"])
    # per trajectory: segments of held modes (corners held for several steps saturate velocity clips)
    modes = np.zeros((n_traj, T), np.int32)
    for i in range(n_traj):
        t = 0
        style = i % 4
        while t < T:
            seg = int(rng.integers(1, 24))
            m = {0: int(rng.integers(0, 6)), 1: int(rng.choice([1, 2, 4])), 2: 5, 3: 0}[style]
            modes[i, t : t + seg] = m
            t += seg
    keys = jr.split(jr.key(case["key"]), n_traj)
    obs0, (obs, acts, rews, terms, truncs) = roll(keys, jnp.asarray(modes))
    # a second, identical call with a freshly constructed second environment object in between: no Python-side state
    env_b = build_env(name, opts, stack)
    _ = env_b.action_space.sample(key=jr.key(0))
    obs0_b, outs_b = roll(keys, jnp.asarray(modes))
    same = all(np.array_equal(np.asarray(x), np.asarray(y), equal_nan=True) for x, y in zip(jax.tree.leaves((obs0, obs, rews, terms)), jax.tree.leaves((obs0_b, outs_b[0], outs_b[2], outs_b[3]))))
    ctx.check(same, "C02/outputs-depend-on-python-side-state", tags=tags)
    osp = env.observation_space
    obs_all = np.concatenate([np.asarray(obs0)[:, None], np.asarray(obs)], axis=1)
    if isinstance(osp, Box):
        low, high = np.asarray(osp.low), np.asarray(osp.high)
        ctx.check(obs_all.shape[2:] == low.shape, "C02/observation-shape-differs-from-space", tags=tags, shape=list(obs_all.shape[2:]), space=list(low.shape))
        ctx.check(obs_all.dtype == low.dtype, "C02/observation-dtype-differs-from-space", tags=tags, dtype=str(obs_all.dtype), space=str(low.dtype))
        ctx.check(not bool(np.isnan(obs_all).any()), "C02/observation-contains-nan", tags=tags)
        below, above = obs_all < low, obs_all > high
        if below.any() or above.any():
            idx = np.argwhere(below | above)[0]
            ctx.fail("C02/observation-outside-declared-bounds", tags=tags, index=idx.tolist(), value=float(obs_all[tuple(idx)]), low=float(np.broadcast_to(low, obs_all.shape[2:])[tuple(idx[2:])]), high=float(np.broadcast_to(high, obs_all.shape[2:])[tuple(idx[2:])]))
    # the spaces' own membership answers (eagerly, on a sample of the produced values)
    pick = rng.integers(0, T, 6)
    for j in pick:
        o = jax.tree.map(lambda x: x[0, j], obs)
        ctx.check(bool(osp.contains(o)), "C02/observation-space-rejects-own-observation", tags=tags, step=int(j))
    samp_steps = np.argwhere(modes == 0)[:6]
    for i, j in samp_steps:
        ctx.check(bool(env.action_space.contains(np.asarray(acts)[i, j])), "C02/action-space-rejects-own-sample", tags=tags, action=np.asarray(acts)[i, j])
    r = np.asarray(rews)
    ctx.check(r.shape == (n_traj, T) and np.issubdtype(r.dtype, np.floating), "C02/reward-not-a-float-scalar", tags=tags, shape=list(r.shape), dtype=str(r.dtype))
    ctx.check(bool(np.all(np.isfinite(r))), "C02/reward-not-finite", tags=tags)
    for nm, f in (("terminal", np.asarray(terms)), ("truncated", np.asarray(truncs))):
        ctx.check(f.shape == (n_traj, T) and f.dtype == np.bool_, f"C02/{nm}-not-a-boolean-scalar", tags=tags, shape=list(f.shape), dtype=str(f.dtype))
    saturated = False
    if isinstance(osp, Box):
        fin = np.isfinite(np.broadcast_to(low, obs_all.shape[2:])) | np.isfinite(np.broadcast_to(high, obs_all.shape[2:]))
        if fin.any():
            at = (np.isclose(obs_all, low, rtol=0, atol=1e-7) | np.isclose(obs_all, high, rtol=0, atol=1e-7)) & fin
            saturated = bool(at.any())
    ended = bool(np.asarray(terms).any() or np.asarray(truncs).any())
    ctx.count(nontrivial=saturated or ended, classes=[name, tags["stack"]] + ["saturated_a_bound"] * saturated + ["episode_end"] * ended + [f"{name}:saturated"] * saturated, key=[name, opts, stack, case["key"]])


def bool_options(name):
    """Boolean constructor options of a built-in environment (found by introspection)."""
    import inspect

    from lerax.env import classic_control as cc
    from lerax.env import mujoco as mj
    from lerax.env.unitree import g1

    cls = getattr(cc, name) if name in CLASSIC else getattr(mj, name) if name in MUJOCO else getattr(g1, name)
    return {k: v.default for k, v in inspect.signature(cls.__init__).parameters.items() if isinstance(v.default, bool)}


def check_signature(ctx: Ctx, case):
    """Constructor configurations without running the physics: the abstract (shape, dtype) signature of reset() and step()
    under jax.eval_shape against the declared spaces - decides the shape/dtype clauses for every flag combination drawn."""
    from lerax.space import Box

    name, opts = case["env"], case["opts"]
    env = build_env(name, opts, [])
    tags = {"env": name, "opts": json.dumps(opts, sort_keys=True)}

    def probe(key):
        k0, k1, k2 = jr.split(key, 3)
        state, obs, _ = env.reset(key=k0)
        a = env.action_space.sample(key=k1)
        _, obs2, r, term, trunc, _ = env.step(state, a, key=k2)
        return obs, obs2, a, r, term, trunc

    obs, obs2, a, r, term, trunc = jax.eval_shape(probe, jr.key(0))
    osp, asp = env.observation_space, env.action_space
    if isinstance(osp, Box):
        for which, o in (("reset", obs), ("step", obs2)):
            ctx.check(tuple(o.shape) == tuple(osp.low.shape), "C02/observation-shape-differs-from-space", tags=tags, which=which, shape=list(o.shape), space=list(osp.low.shape))
            ctx.check(o.dtype == osp.low.dtype, "C02/observation-dtype-differs-from-space", tags=tags, which=which, dtype=str(o.dtype), space=str(osp.low.dtype))
    if isinstance(asp, Box):
        ctx.check(tuple(a.shape) == tuple(asp.low.shape) and a.dtype == asp.low.dtype, "C02/action-sample-signature-differs-from-space", tags=tags, shape=list(a.shape), dtype=str(a.dtype))
    ctx.check(r.shape == () and jnp.issubdtype(r.dtype, jnp.floating), "C02/reward-not-a-float-scalar", tags=tags, shape=list(r.shape), dtype=str(r.dtype))
    for nm, f in (("terminal", term), ("truncated", trunc)):
        ctx.check(f.shape == () and f.dtype == jnp.bool_, f"C02/{nm}-not-a-boolean-scalar", tags=tags, shape=list(f.shape), dtype=str(f.dtype))
    ctx.count(nontrivial=bool(opts), classes=[name, "signature"], key=[name, tags["opts"]])


def worker(ctx: Ctx, payload):
    for case in payload:
        try:
            if case.get("part") == "signature":
                ctx.call("signature", check_signature, case)
                continue
            ctx.call("rollout", check_env, case)
        except Violation as v:
            ctx.violations.append(v)
            ctx.skip_buckets.add(v.bucket)


PARTS = {"rollout": check_env, "signature": check_signature}

OPTS = {
    "CartPole": [{}, {"euler": True}, {"x_threshold": 1.0, "theta_threshold_radians": 0.1}],
    "MountainCar": [{}, {"euler": True}, {"max_speed": 0.03}],
    "ContinuousMountainCar": [{}, {"euler": True}],
    "Pendulum": [{}, {"euler": True}, {"max_speed": 4.0, "max_torque": 3.0}],
    "Acrobot": [{}, {"euler": True}, {"max_vel_1": 6.0, "max_vel_2": 9.0}],
    "Ant": [{}, {"exclude_current_positions_from_observation": False}, {"include_cfrc_ext_in_observation": False}],
    "Humanoid": [{}, {"exclude_current_positions_from_observation": False}],
    "Hopper": [{}, {"terminate_when_unhealthy": False}, {"exclude_current_positions_from_observation": False}],
    "Walker2d": [{}, {"exclude_current_positions_from_observation": False}],
    "HalfCheetah": [{}, {"exclude_current_positions_from_observation": False}],
    "Swimmer": [{}, {"exclude_current_positions_from_observation": False}],
}


def run(ctx: Ctx):
    ctx.rule = (
        "Every built-in environment (5 classic control, 11 MuJoCo, 3 Unitree G1) x constructor configurations x wrapper stacks "
        "{bare, TimeLimit, ClipAction, RescaleAction, FlattenObservation, ClipObservation, RescaleObservation (asymmetric targets), ClipReward, Identity}: vmapped trajectories through the "
        "Gym-style step inside one lax.scan with per-step action rules drawn per segment from {space sample, low corner, high "
        "corner, zero/middle, a held corner, energy pumping}; every observation must satisfy shape/dtype/bounds/NaN-freeness of the "
        "declared space (and the space's own contains), sampled actions are members, rewards finite float scalars, flags boolean "
        "scalars, and a second call / a second environment object gives identical outputs. Non-trivial: a trajectory in which an "
        "observation coordinate reaches a finite bound or an episode ends. Part signature: every boolean constructor flag of every "
        "environment toggled singly / all / in seeded random combinations; reset() and step() traced with jax.eval_shape and the "
        "emitted (shape, dtype) compared with the declared spaces."
    )
    ctx.assumptions = ["states are those reachable through the auto-resetting step()", "default float32 mode"]
    payloads = []
    quick = ctx.quick
    for name in CLASSIC:
        is_box = name in ("ContinuousMountainCar", "Pendulum")
        stacks = [[], ["TimeLimit"]] + ([["ClipAction"], ["RescaleAction", "TimeLimit"]] if is_box else [["FlattenObservation", "ClipObservation"]])
        if name != "CartPole":  # finite observation bounds: the rescaling wrapper applies
            stacks += [["RescaleObservation01"]] + ([["ClipReward", "RescaleObservationAsym", "TimeLimit"], ["Identity", "RescaleObservation01", "ClipObservation"]] if not quick else [])
        cases = []
        for oi, opts in enumerate(OPTS[name][: 1 if quick else 3]):
            for si, stack in enumerate(stacks if (not quick or oi == 0) else stacks[:1]):
                cases.append({"env": name, "opts": opts, "stack": stack, "T": ctx.n(320, 768), "n_traj": ctx.n(24, 128), "key": ctx.seed * 31 + oi * 7 + si})
        payloads.append(cases)
    for name in MUJOCO:
        cases = []
        for oi, opts in enumerate(OPTS.get(name, [{}])[: 1 if quick else 3]):
            for si, stack in enumerate([[]] if quick else [[], ["TimeLimit", "ClipAction"], ["RescaleAction"]]):
                cases.append({"env": name, "opts": opts, "stack": stack, "T": ctx.n(40, 256), "n_traj": ctx.n(4, 32), "key": ctx.seed * 31 + oi * 7 + si})
        payloads.append(cases)
    for name in G1:
        payloads.append([{"env": name, "opts": {}, "stack": [], "T": ctx.n(12, 100), "n_traj": ctx.n(2, 8), "key": ctx.seed * 31}])
    # every boolean constructor flag toggled on its own, all toggled, and seeded random combinations (trace only)
    rng = np.random.default_rng(ctx.seed + 2)
    sig = []
    for name in CLASSIC + MUJOCO + G1:
        flags = bool_options(name)
        combos = [{k: not v} for k, v in flags.items()]
        if len(flags) > 1:
            combos.append({k: not v for k, v in flags.items()})
            for _ in range(ctx.n(2, 12)):
                combos.append({k: (not v) for k, v in flags.items() if rng.random() < 0.5})
        sig.append([{"part": "signature", "env": name, "opts": c} for c in [{}] + [c for c in combos if c]])
    payloads += sig
    run_pool(ctx, "checks.c02_spaces_along_rollouts", "worker", payloads, procs=16)
    for name in ("MountainCar", "Acrobot", "Pendulum"):
        if ctx.classes.get(f"rollout:{name}:saturated", 0) == 0 and not ctx.violations:
            from vlib.runner import HarnessError

            raise HarnessError(f"generator degenerate: no {name} trajectory saturated a bound")
