"""C04 — an on-policy rollout is a faithful record of the interaction."""

from __future__ import annotations

import jax

jax.config.update("jax_enable_x64", True)

import numpy as np
from hypothesis import strategies as st
from jax import numpy as jnp
from jax import random as jr

from vlib import mdp, onpolicy
from vlib.doubles import StashCallback
from vlib.runner import Ctx

# static shape configurations; each compiles collect_rollout once
CONFIGS = {
    "disc-onehot": dict(sizes=(4, 3), act_kind="discrete", obs_kinds=("onehot",), masked=False),
    "disc-masked": dict(sizes=(4, 3), act_kind="discrete", obs_kinds=("onehot",), masked=True),
    "disc-dict": dict(sizes=(3, 2), act_kind="discrete", obs_kinds=("dict",), masked=False),
    "disc-tuple": dict(sizes=(3, 2), act_kind="discrete", obs_kinds=("tuple",), masked=True),
    "disc-id": dict(sizes=(5, 2), act_kind="discrete", obs_kinds=("discrete",), masked=False),
    "box-scalar": dict(sizes=(4, 3), act_kind="box", obs_kinds=("onehot",), masked=False, act_shape=()),
    "box-vec2": dict(sizes=(3, 2), act_kind="box", obs_kinds=("onehot",), masked=False, act_shape=(2,)),
}


def _build(case):
    spec = case["spec"]
    env = mdp.make_env(spec)
    if case.get("policy_kind") == "mlp":
        # the library's own (stateless) MLP actor-critic; log_std high enough that Box samples leave the bounds
        from lerax.policy import MLPActorCriticPolicy

        policy = MLPActorCriticPolicy(env, feature_size=4, feature_width=8, feature_depth=1, value_width=8, value_depth=1, action_width=8, action_depth=1, log_std_init=case.get("log_std", 0.5), key=jr.key(case["pkey"]))
    else:
        policy = onpolicy.table_policy(env, spec, case["policy"])
    return spec, env, policy, mdp.Interp(spec)


def oracle_rollout(ctx: Ctx, case):
    spec, env, policy, interp = _build(case)
    T = case["T"]
    algo = onpolicy.with_gamma(onpolicy.algo_template(case["algo"], 1, T), case["gamma"], case["lam"] if case["algo"] != "REINFORCE" else None)
    s0, c0 = case["start"]
    ss = onpolicy.step_state(spec, s0, c0, c0)
    if case.get("policy_kind") == "mlp":
        ss = eqx.tree_at(lambda x: x.policy_state, ss, None, is_leaf=lambda x: x is None)
    ss2, buf = onpolicy.collect(algo, env, policy, ss, jr.key(case["key"]))
    flags, env_r, ends, _ = onpolicy.walk_rollout(ctx, spec, interp, policy, case["gamma"], (s0, c0, c0, 0.0), buf, ss2, tags={"algo": case["algo"]})
    # first PPO ratio is 1 / approx_kl 0 on the fresh buffer (through the real loss)
    from lerax.algorithm import PPO

    _, stats = _ppo_loss(policy, buf)
    ctx.close(stats.approx_kl, 0.0, "C04/fresh-buffer-approx-kl-nonzero", atol=1e-9, tags={"algo": case["algo"]})
    nontrivial = flags["clip"] or flags["trunc_only"] or flags["term_only"] or flags["both"] or flags["masked"]
    ctx.count(
        nontrivial=nontrivial,
        classes=[k for k, v in flags.items() if v] + [case["config"], case["algo"]],
        key=[case["config"], sorted(k for k, v in flags.items() if v), case["T"], spec["time_limit"], case["key"] % 64],
    )


import equinox as eqx


@eqx.filter_jit
def _ppo_loss(policy, buf):
    from lerax.algorithm import PPO

    return PPO.ppo_loss(policy, buf, False, 0.2, False, 0.5, 0.0)


def oracle_raw_action(ctx: Ctx, case):
    """'The action it chose': a Gaussian whose mean lies >= 1 outside the bounds with std 1e-3
    certainly samples outside the bounds, so the stored action must not lie inside them."""
    spec, env, policy, interp = _build(case)
    T = case["T"]
    algo = onpolicy.with_gamma(onpolicy.algo_template("PPO", 1, T), 0.9, 0.9)
    s0, c0 = case["start"]
    ss2, buf = onpolicy.collect(algo, env, policy, onpolicy.step_state(spec, s0, c0, c0), jr.key(case["key"]))
    acts = np.asarray(buf.actions).reshape(T, -1)
    obs = np.asarray(buf.observations)
    mu = np.asarray(case["policy"]["mu"], np.float64).reshape(spec["nS"], -1)
    low, high = interp.low.reshape(-1), interp.high.reshape(-1)
    n_out = 0
    for t in range(T):
        s, _ = interp.decode_obs(obs[t])
        outside = (mu[s] < low - 0.5) | (mu[s] > high + 0.5)
        if outside.any():
            n_out += 1
            stored_inside = (acts[t] >= low) & (acts[t] <= high)
            ctx.check(
                not bool((outside & stored_inside).any()),
                "C04/stored-action-is-not-the-chosen-one",
                t=t,
                mean=mu[s],
                stored=acts[t],
                low=low,
                high=high,
            )
            ctx.check(bool(np.all(np.abs(acts[t] - mu[s]) < 0.1)), "C04/stored-action-far-from-chosen", t=t, mean=mu[s], stored=acts[t])
    ctx.count(nontrivial=n_out > 0, classes=["has_out_of_bounds_choice"] if n_out else [], key=[case["config"], case["key"], case["policy"]["mu"]])


def oracle_iteration(ctx: Ctx, case):
    """Through the real iteration(): buffer captured from ctx.locals, num_envs in {1,3}."""
    spec, env, policy, interp = _build(case)
    T, E = case["T"], case["E"]
    algo = onpolicy.with_gamma(onpolicy.algo_template(case["algo"], E, T), case["gamma"], case["lam"] if case["algo"] != "REINFORCE" else None)
    cb = StashCallback(("rollout_buffer",))
    state = onpolicy.reset_algo(algo, env, policy, jr.key(case["key"]), cb)
    state2 = onpolicy.iterate(algo, state, jr.key(case["key"] + 1), cb)
    buf = state2.callback_state.data["rollout_buffer"]
    any_flags = set()
    for e in range(E):
        if E == 1:
            b, ss0, ss1 = buf, state.step_state, state2.step_state
        else:
            b = jax.tree.map(lambda x: x[e], buf)
            ss0 = jax.tree.map(lambda x: x[e], state.step_state)
            ss1 = jax.tree.map(lambda x: x[e], state2.step_state)
        s0, c0, acc0 = mdp.read_state(spec, ss0.env_state)
        ctx.check(bool(interp.I[s0]) and c0 == 0 and int(ss0.policy_state.n) == 0, "C04/reset-state-not-initial", s=s0, c=c0)
        flags, *_ = onpolicy.walk_rollout(ctx, spec, interp, policy, case["gamma"], (s0, c0, 0, acc0), b, ss1, tags={"algo": case["algo"], "via": "iteration"})
        any_flags |= {k for k, v in flags.items() if v}
    ctx.check(int(state2.iteration_count) == 1, "C04/iteration-count")
    ctx.count(nontrivial=bool(any_flags - {"done"}), classes=sorted(any_flags) + [case["algo"], f"E={E}"], key=[case["config"], case["algo"], E, sorted(any_flags), case["key"] % 64])


# ----------------------------------------------------------------------------- built-in environments
import functools


@functools.lru_cache(maxsize=None)
def _classic_tl(name):
    from lerax.env import classic_control as cc
    from lerax.wrapper import TimeLimit

    return TimeLimit(getattr(cc, name)(), 5)


@eqx.filter_jit
def _env_parts(env, state, action):
    k = jr.key(0)
    nxt = env.transition(state, action, key=k)
    return nxt, env.observation(state, key=k), env.observation(nxt, key=k), env.reward(state, action, nxt, key=k), env.terminal(nxt, key=k), env.truncate(nxt)


def oracle_classic_rollout(ctx: Ctx, case):
    """The same record-keeping law on built-in deterministic environments (CartPole / Pendulum under a
    TimeLimit) with the library's own MLP policy: the oracle is the environment's own functional API."""
    from checks.c01_step_reset import _classic_state, classic_fresh
    from lerax.policy import MLPActorCriticPolicy
    from lerax.space import Box

    name, T, N = case["env"], case["T"], case["time_limit"]
    env = eqx.tree_at(lambda e: e.max_episode_steps, _classic_tl(name), jnp.asarray(N, dtype=int))
    policy = MLPActorCriticPolicy(env, feature_size=4, feature_width=8, feature_depth=1, value_width=8, value_depth=1, action_width=8, action_depth=1, log_std_init=case["log_std"], key=jr.key(case["pkey"]))
    algo = onpolicy.with_gamma(onpolicy.algo_template(case["algo"], 1, T), case["gamma"], case["lam"] if case["algo"] != "REINFORCE" else None)
    state0 = _classic_state(env, name, case["y"], 0.0, case["count"])
    ss = onpolicy.step_state(case_spec_dummy, 0, 0, 0)
    ss = eqx.tree_at(lambda x: (x.env_state, x.policy_state), ss, (state0, None), is_leaf=lambda x: x is None)
    ss2, buf = onpolicy.collect(algo, env, policy, ss, jr.key(case["key"]))
    values, log_probs = onpolicy.reevaluate(policy, buf)
    tags = {"algo": case["algo"], "env": name}
    fresh = classic_fresh(name)
    is_box = isinstance(env.action_space, Box)
    state = state0
    acts = np.asarray(buf.actions)
    obs = np.asarray(buf.observations, np.float64)
    flags = set()
    for t in range(T):
        a = acts[t]
        ca = np.clip(a, np.asarray(env.action_space.low), np.asarray(env.action_space.high)) if is_box else a
        if is_box and not np.array_equal(ca, a):
            flags.add("clip")
        nxt, o_t, o_next, r, term, trunc = _env_parts(env, state, jnp.asarray(ca, dtype=acts.dtype))
        ctx.close(obs[t], o_t, "C04/classic/observation-not-of-current-state", tags=tags, rtol=1e-9, atol=1e-9, t=t)
        ctx.close(np.asarray(buf.values)[t], np.asarray(values)[t], "C04/stored-value-not-policys", tags=tags, t=t)
        ctx.close(np.asarray(buf.log_probs)[t], np.asarray(log_probs)[t], "C04/stored-logprob-not-of-stored-action", tags=tags, t=t)
        term, trunc = bool(term), bool(trunc)
        done = term or trunc
        ctx.check(bool(np.asarray(buf.dones)[t]) == done, "C04/done-flag", tags=tags, t=t)
        boot = trunc and not term
        exp = float(r) + (case["gamma"] * float(policy.value(None, o_next)[1]) if boot else 0.0)
        if not np.isclose(float(np.asarray(buf.rewards)[t]), exp, rtol=1e-9, atol=1e-9):
            ctx.fail("C04/classic/reward-or-bootstrap", tags=tags, t=t, observed=float(np.asarray(buf.rewards)[t]), expected=exp, term=term, trunc=trunc)
        flags |= {"both"} if term and trunc else {"term_only"} if term else {"trunc_only"} if trunc else set()
        if done:
            nstate = ss2.env_state if t + 1 == T else None
            if nstate is None:
                o = obs[t + 1]
                y = o if name == "CartPole" else np.array([np.arctan2(o[1], o[0]), o[2]])
                nstate = _classic_state(env, name, y.tolist(), 0.0, 0)
            ctx.check(fresh(nstate) is None, "C04/post-done-state-not-initial", tags=tags, t=t, why=fresh(nstate))
            state = nstate
        else:
            state = nxt
    # carried state
    from checks.c01_step_reset import tree_close

    if not (T and bool(np.asarray(buf.dones)[-1])):
        ctx.check(tree_close(ss2.env_state, state, 1e-9, 1e-9), "C04/carried-env-state", tags=tags)
    ctx.count(nontrivial=bool(flags), classes=sorted(flags) + [name, "classic"], key=[name, case["algo"], sorted(flags), N, case["key"] % 64])


case_spec_dummy = {"nS": 1, "time_limit": None}

PARTS = {"rollout": oracle_rollout, "raw_action": oracle_raw_action, "iteration": oracle_iteration, "classic_rollout": oracle_classic_rollout}


# ----------------------------------------------------------------------------- strategies
def policy_tables(draw, spec, far_outside=False):
    nS, nA = spec["nS"], spec["nA"]
    fl = st.floats(-2, 2, allow_nan=False).map(lambda x: round(x, 3))
    pol = {"vtab": [draw(st.floats(-5, 5, allow_nan=False).map(lambda x: round(x, 3))) for _ in range(nS)]}
    if spec["act_kind"] == "discrete":
        pol["logits"] = [[draw(fl) for _ in range(nA)] for _ in range(nS)]
    else:
        shape = spec["act_shape"]
        k = int(np.prod(shape)) if shape else 1
        low, high = spec["act_low"], spec["act_high"]
        if far_outside:
            cell = st.sampled_from([low - 1.5, high + 1.5, (low + high) / 2, low - 3.0, high + 1.0])
            pol["log_std"] = [float(np.log(1e-3))] * k if shape else float(np.log(1e-3))
        else:
            cell = st.floats(low - 1.0, high + 1.0, allow_nan=False).map(lambda x: round(x, 3))
            ls = draw(st.sampled_from([-1.0, 0.0, 0.5, 1.5]))
            pol["log_std"] = [ls] * k if shape else ls
        pol["mu"] = [[draw(cell) for _ in range(k)] if shape else draw(cell) for _ in range(nS)]
        pol["vacc"] = draw(st.sampled_from([0.0, 1.0, -0.5]))
    return pol


@st.composite
def rollout_cases(draw, config, T, tl, algos=("PPO", "A2C", "REINFORCE"), far_outside=False, E=None, policy_kind="table"):
    cfg = CONFIGS[config]
    spec = draw(
        mdp.mdp_specs(
            fixed_sizes=cfg["sizes"],
            act_kind=cfg["act_kind"],
            obs_kinds=cfg["obs_kinds"],
            act_shape=cfg.get("act_shape", ()),
            masked=cfg["masked"],
            fixed_time_limit=tl,
            time_limits=(None, 1, 2, 3, 4, 6),
        )
    )
    N = spec["time_limit"]
    case = {
        "config": config,
        "spec": spec,
        "policy": policy_tables(draw, spec, far_outside),
        "T": T,
        "algo": draw(st.sampled_from(list(algos))),
        "gamma": draw(st.sampled_from([0.99, 0.9, 0.5, 1.0])),
        "lam": draw(st.sampled_from([0.95, 1.0, 0.0, 0.7])),
        "start": [draw(st.integers(0, spec["nS"] - 1)), draw(st.integers(0, N - 1)) if N else 0],
        "key": draw(st.integers(0, 2**31 - 2)),
    }
    if E is not None:
        case["E"] = E
    if policy_kind == "mlp":
        case.update(policy_kind="mlp", pkey=draw(st.integers(0, 2**31 - 2)), log_std=draw(st.sampled_from([0.0, 0.5, 1.0])))
    return case


@st.composite
def classic_cases(draw, name, T):
    from checks.c01_step_reset import CLASSIC_REGIONS

    N = draw(st.integers(1, 6))
    lo, hi = CLASSIC_REGIONS[name][draw(st.integers(0, len(CLASSIC_REGIONS[name]) - 1))]
    return {
        "env": name, "T": T, "time_limit": N, "count": draw(st.integers(0, N - 1)),
        "y": [draw(st.floats(a, b, allow_nan=False)) if a < b else float(a) for a, b in zip(lo, hi)],
        "algo": draw(st.sampled_from(["PPO", "A2C", "REINFORCE"])), "gamma": draw(st.sampled_from([0.99, 0.9, 1.0])), "lam": draw(st.sampled_from([0.95, 1.0, 0.0])),
        "log_std": draw(st.sampled_from([0.0, 1.0, 2.0])), "pkey": draw(st.integers(0, 2**31 - 2)), "key": draw(st.integers(0, 2**31 - 2)),
    }


def run(ctx: Ctx):
    ctx.rule = (
        "Finite MDP tables (transition/reward/terminal/truncation/initial-support/mask), TimeLimit N, table policies with a "
        "counter state (Categorical / unsquashed Gaussian so samples leave the Box), start state, key -> real collect_rollout / "
        "iteration of PPO, A2C, REINFORCE; every row is re-derived by a NumPy interpreter of the tables (and, for CartPole / Pendulum under a TimeLimit with the library MLP policy, by the environment's own functional API). Non-trivial: rollout with "
        "clipping active, a truncation-only end, a termination-only end, both on one step, or a restrictive mask; distinct by "
        "(config, flag set, T, N, key bucket)."
    )
    ctx.assumptions = [
        "vlib/mdp.py Interp is the reference semantics of the tables",
        "the policy double's evaluate_action/value define 'the policy's own value and log-probability'",
        "x64",
    ]
    quick = ctx.quick
    plan = [
        ("disc-onehot", 16, "some"),
        ("disc-onehot", 5, "none"),
        ("disc-masked", 16, "some"),
        ("disc-dict", 5, "some"),
        ("disc-tuple", 16, "none"),
        ("disc-id", 5, "some"),
        ("box-scalar", 16, "some"),
        ("box-scalar", 5, "none"),
        ("box-vec2", 16, "some"),
    ]
    if not quick:
        plan += [(c, T, tl) for c in CONFIGS for T in (1, 40) for tl in ("some", "none")]
    n = ctx.n(120, 2500)
    for config, T, tl in plan:
        ctx.run_given("rollout", rollout_cases(config, T, tl), oracle_rollout, n)
    for config, T, tl in [("disc-onehot", 16, "some"), ("box-scalar", 16, "some"), ("disc-dict", 5, "some"), ("box-vec2", 5, "none"), ("disc-masked", 16, "some")] + ([("disc-tuple", 5, "some")] if not quick else []):
        ctx.run_given("rollout", rollout_cases(config, T, tl, policy_kind="mlp"), oracle_rollout, ctx.n(60, 1200))
    for name, T in (("CartPole", 12), ("Pendulum", 12)):
        ctx.run_given("classic_rollout", classic_cases(name, T), oracle_classic_rollout, ctx.n(60, 1200))
    for config in ("box-scalar", "box-vec2"):
        ctx.run_given("raw_action", rollout_cases(config, 8, "some", algos=("PPO",), far_outside=True), oracle_raw_action, ctx.n(60, 1000))
    it_plan = [("disc-onehot", "PPO", 3, 8), ("box-scalar", "A2C", 3, 5), ("disc-masked", "REINFORCE", 1, 8)]
    if not quick:
        it_plan += [("box-vec2", "PPO", 3, 16), ("disc-dict", "A2C", 1, 5), ("disc-tuple", "PPO", 3, 5), ("box-scalar", "REINFORCE", 3, 8)]
    for config, algo, E, T in it_plan:
        ctx.run_given("iteration", rollout_cases(config, T, "some", algos=(algo,), E=E), oracle_iteration, ctx.n(40, 600))
    ctx.require_fraction("rollout", "both", 0.05)
    ctx.require_fraction("rollout", "trunc_only", 0.15)
    ctx.require_fraction("rollout", "term_only", 0.15)
    ctx.require_fraction("rollout", "clip", 0.10)
