"""C15 — action distributions are coherent probability laws."""

from __future__ import annotations

import itertools

import jax

jax.config.update("jax_enable_x64", True)

import equinox as eqx
import numpy as np
from hypothesis import strategies as st
from jax import numpy as jnp
from jax import random as jr
from scipy import integrate, special, stats

from lerax.distribution import (
    Bernoulli,
    Categorical,
    MultiCategorical,
    MultivariateNormalDiag,
    Normal,
    SquashedMultivariateNormalDiag,
    SquashedNormal,
)
from vlib.runner import Ctx

NS = 4000
KS_D = 0.06  # n=4000: P(D > 0.06) ~ 2 exp(-2 n D^2) = 6e-13
TOL = dict(rtol=1e-9, atol=1e-10)


@eqx.filter_jit
def _samples(dist, keys):
    return jax.vmap(dist.sample)(keys)


@eqx.filter_jit
def _sample_lp(dist, keys):
    return jax.vmap(dist.sample_and_log_prob)(keys)


@eqx.filter_jit
def _probs(dist, xs):
    return jax.vmap(dist.prob)(xs)


@eqx.filter_jit
def _log_probs(dist, xs):
    return jax.vmap(dist.log_prob)(xs)


def _trapz(f, x):
    f, x = np.asarray(f, np.float64), np.asarray(x, np.float64)
    return float(np.sum((f[1:] + f[:-1]) * np.diff(x)) / 2)


def _keys(seed, n=NS):
    return jr.split(jr.key(seed), n)


def _chi2(ctx, counts, probs, bucket, **detail):
    """Chi-square goodness of fit at p = 1e-9 with categories of expected count >= 20 (rest lumped)."""
    counts, probs = np.asarray(counts, float), np.asarray(probs, float)
    n = counts.sum()
    ctx.check(not bool((counts[probs == 0] > 0).any()), bucket + "-zero-probability-outcome-sampled", **detail)
    big = probs * n >= 20
    obs = list(counts[big]) + ([counts[~big].sum()] if (~big).any() and probs[~big].sum() * n >= 5 else [])
    exp = list(probs[big] * n) + ([probs[~big].sum() * n] if (~big).any() and probs[~big].sum() * n >= 5 else [])
    if len(obs) < 2:
        return
    stat = float(sum((o - e) ** 2 / e for o, e in zip(obs, exp)))
    ctx.check(stat < stats.chi2.isf(1e-9, len(obs) - 1), bucket, stat=stat, df=len(obs) - 1, **detail)


def _softmax_logits(logits=None, probs=None):
    if logits is not None:
        return special.log_softmax(np.asarray(logits, np.float64))
    p = np.asarray(probs, np.float64)
    with np.errstate(divide="ignore"):
        return np.log(p / p.sum())


def _xlogx_sum(lp):
    p = np.exp(lp)
    return -float(np.sum(np.where(p > 0, p * np.where(np.isfinite(lp), lp, 0.0), 0.0)))


# ----------------------------------------------------------------------------- discrete laws
def oracle_categorical(ctx: Ctx, case):
    kw = {"logits": jnp.asarray(case["logits"])} if case.get("logits") is not None else {"probs": jnp.asarray(case["probs"])}
    d = Categorical(**kw)
    ref = _softmax_logits(case.get("logits"), case.get("probs"))
    n = len(ref)
    tags = {"dist": "Categorical"}
    lps = np.asarray([float(d.log_prob(jnp.asarray(i))) for i in range(n)])
    ps = np.asarray([float(d.prob(jnp.asarray(i))) for i in range(n)])
    ctx.close(lps, ref, "C15/categorical/log-prob", tags=tags, **TOL)
    ctx.close(ps, np.exp(lps), "C15/prob-not-exp-log-prob", tags=tags, **TOL)
    ctx.close(ps.sum(), 1.0, "C15/total-mass-not-one", tags=tags, **TOL)
    ctx.close(d.entropy(), _xlogx_sum(ref), "C15/entropy-not-minus-E-log-p", tags=tags, rtol=1e-9, atol=1e-9)
    mode = int(d.mode())
    ctx.check(0 <= mode < n and ref[mode] >= ref.max() - 1e-12, "C15/mode-not-in-support-or-not-most-likely", tags=tags, mode=mode)
    x, lp = _sample_lp(d, _keys(case["key"]))
    x, lp = np.asarray(x), np.asarray(lp)
    ctx.check(bool(np.all((x >= 0) & (x < n))), "C15/sample-outside-support", tags=tags)
    ctx.close(lp, ref[x], "C15/sample-and-log-prob-mismatch", tags=tags, **TOL)
    _chi2(ctx, np.bincount(x, minlength=n), np.exp(ref), "C15/samples-do-not-follow-the-density", tags=tags)
    x2 = np.asarray(_samples(d, _keys(case["key"] + 1)))
    ctx.check(bool(np.all((x2 >= 0) & (x2 < n))), "C15/sample-outside-support", tags=tags, via="sample")
    _chi2(ctx, np.bincount(x2, minlength=n), np.exp(ref), "C15/samples-do-not-follow-the-density", tags=tags, via="sample")
    zero = bool((np.exp(ref) == 0).any())
    ctx.count(nontrivial=zero or n >= 3, classes=["Categorical"] + ["zero_prob"] * zero + ["probs" if case.get("probs") is not None else "logits"], key=case)


def oracle_bernoulli(ctx: Ctx, case):
    kw = {"logits": jnp.asarray(case["logits"])} if case.get("logits") is not None else {"probs": jnp.asarray(case["probs"])}
    d = Bernoulli(**kw)
    p1 = special.expit(np.asarray(case["logits"], np.float64)) if case.get("logits") is not None else np.asarray(case["probs"], np.float64)
    k = len(p1)
    tags = {"dist": "Bernoulli"}
    total = 0.0
    for bits in itertools.product([0, 1], repeat=k):
        b = np.asarray(bits)
        lp = np.asarray(d.log_prob(jnp.asarray(b)), np.float64)
        with np.errstate(divide="ignore"):
            ref = np.where(b == 1, np.log(p1), np.log1p(-p1))
        ctx.close(lp, ref, "C15/bernoulli/log-prob", tags=tags, rtol=1e-9, atol=1e-9)
        ctx.close(d.prob(jnp.asarray(b)), np.exp(lp), "C15/prob-not-exp-log-prob", tags=tags, **TOL)
        total += float(np.exp(lp.sum()))
    ctx.close(total, 1.0, "C15/total-mass-not-one", tags=tags, rtol=1e-9, atol=1e-9)
    ent = -np.where((p1 > 0) & (p1 < 1), p1 * np.log(np.where(p1 > 0, p1, 1)) + (1 - p1) * np.log1p(-np.where(p1 < 1, p1, 0)), 0.0)
    ctx.close(d.entropy(), ent, "C15/entropy-not-minus-E-log-p", tags=tags, rtol=1e-9, atol=1e-9)
    mode = np.asarray(d.mode())
    ctx.check(bool(np.all((mode == 0) | (mode == 1))) and bool(np.all((mode == 1) == (p1 > 0.5)) or np.any(p1 == 0.5)), "C15/mode-not-in-support-or-not-most-likely", tags=tags)
    x, lp = _sample_lp(d, _keys(case["key"]))
    x, lp = np.asarray(x), np.asarray(lp, np.float64)
    ctx.check(bool(np.all((x == 0) | (x == 1))), "C15/sample-outside-support", tags=tags)
    with np.errstate(divide="ignore"):
        ctx.close(lp, np.where(x == 1, np.log(p1), np.log1p(-p1)), "C15/sample-and-log-prob-mismatch", tags=tags, rtol=1e-9, atol=1e-9)
    for j in range(k):
        _chi2(ctx, [np.sum(x[:, j] == 0), np.sum(x[:, j] == 1)], [1 - p1[j], p1[j]], "C15/samples-do-not-follow-the-density", tags=tags, component=j)
    ctx.count(nontrivial=k >= 2, classes=["Bernoulli", f"k={k}"], key=case)


def oracle_multicategorical(ctx: Ctx, case):
    dims = case["dims"]
    pieces = case["pieces"]
    use_probs = case["use_probs"]
    flat = np.concatenate([np.asarray(p, np.float64) for p in pieces])
    if use_probs:
        d_flat = MultiCategorical(probs=jnp.asarray(flat), action_dims=tuple(dims))
        d_seq = MultiCategorical(probs=[jnp.asarray(p) for p in pieces])
        refs = [_softmax_logits(probs=p) for p in pieces]
    else:
        d_flat = MultiCategorical(logits=jnp.asarray(flat), action_dims=tuple(dims))
        d_seq = MultiCategorical(logits=[jnp.asarray(p) for p in pieces])
        refs = [_softmax_logits(logits=p) for p in pieces]
    tags = {"dist": "MultiCategorical"}
    combos = np.asarray(list(itertools.product(*[range(n) for n in dims])))
    ref = sum(r[combos[:, j]] for j, r in enumerate(refs))
    lp_f = np.asarray(_log_probs(d_flat, jnp.asarray(combos)))
    lp_s = np.asarray(_log_probs(d_seq, jnp.asarray(combos)))
    ctx.close(lp_f, ref, "C15/product-law-log-prob-not-sum-of-components", tags=tags, **TOL)
    ctx.close(lp_s, lp_f, "C15/flat-and-sequence-parameterisation-differ", tags=tags, **TOL)
    ctx.close(_probs(d_flat, jnp.asarray(combos)), np.exp(lp_f), "C15/prob-not-exp-log-prob", tags=tags, **TOL)
    total = float(np.exp(lp_f).sum())
    ctx.close(total, 1.0, "C15/total-mass-not-one", tags=tags, rtol=1e-9, atol=1e-9)
    ent = sum(_xlogx_sum(r) for r in refs)
    ctx.close(d_flat.entropy(), ent, "C15/product-law-entropy-not-sum-of-components", tags=tags, rtol=1e-9, atol=1e-9)
    ctx.close(d_seq.entropy(), ent, "C15/flat-and-sequence-parameterisation-differ", tags=tags, rtol=1e-9, atol=1e-9)
    mode = np.asarray(d_flat.mode())
    ctx.check(mode.shape == (len(dims),) and all(0 <= m < n and r[m] >= r.max() - 1e-12 for m, n, r in zip(mode, dims, refs)), "C15/mode-not-in-support-or-not-most-likely", tags=tags, mode=mode)
    x, lp = _sample_lp(d_flat, _keys(case["key"]))
    x, lp = np.asarray(x), np.asarray(lp)
    ctx.check(x.shape == (NS, len(dims)) and all(bool(np.all((x[:, j] >= 0) & (x[:, j] < n))) for j, n in enumerate(dims)), "C15/sample-outside-support", tags=tags)
    ctx.close(lp, sum(r[x[:, j]] for j, r in enumerate(refs)), "C15/sample-and-log-prob-mismatch", tags=tags, **TOL)
    x2 = np.asarray(_samples(d_flat, _keys(case["key"] + 1)))
    for via, xs in (("sample_and_log_prob", x), ("sample", x2)):
        for j, (n, r) in enumerate(zip(dims, refs)):
            _chi2(ctx, np.bincount(xs[:, j], minlength=n), np.exp(r), "C15/samples-do-not-follow-the-density", tags=tags, component=j, via=via)
        if len(dims) >= 2:
            # independent components: the joint of the first two follows the product of the marginals
            joint = np.zeros((dims[0], dims[1]))
            np.add.at(joint, (xs[:, 0], xs[:, 1]), 1)
            _chi2(ctx, joint.reshape(-1), np.outer(np.exp(refs[0]), np.exp(refs[1])).reshape(-1), "C15/product-law-components-not-independent", tags=tags, via=via)
    ctx.count(nontrivial=len(set(dims)) >= 2, classes=["MultiCategorical", f"components={len(dims)}"] + ["probs"] * use_probs, key=case)


# ----------------------------------------------------------------------------- continuous laws
def _ks(ctx, x, cdf, bucket, **detail):
    D = stats.kstest(np.asarray(x, np.float64), cdf).statistic
    ctx.check(D < KS_D, bucket, D=float(D), **detail)


def oracle_normal(ctx: Ctx, case):
    loc, scale = np.asarray(case["loc"], np.float64), np.asarray(case["scale"], np.float64)
    d = Normal(jnp.asarray(loc), jnp.asarray(scale))
    tags = {"dist": "Normal"}
    pts = np.asarray(case["points"], np.float64)
    for p in pts:
        x = loc + p * scale
        ctx.close(d.log_prob(jnp.asarray(x)), stats.norm.logpdf(x, loc, scale), "C15/normal/log-prob", tags=tags, **TOL)
        ctx.close(d.prob(jnp.asarray(x)), np.exp(np.asarray(d.log_prob(jnp.asarray(x)))), "C15/prob-not-exp-log-prob", tags=tags, **TOL)
    ctx.close(d.entropy(), stats.norm.entropy(loc, scale), "C15/entropy-not-minus-E-log-p", tags=tags, **TOL)
    ctx.close(d.mode(), loc, "C15/normal/mode", tags=tags, **TOL)
    l0, s0 = float(loc.reshape(-1)[0]), float(scale.reshape(-1)[0])
    d0 = Normal(jnp.asarray(l0), jnp.asarray(s0))
    grid = np.linspace(l0 - 12 * s0, l0 + 12 * s0, 6001)
    pg, lg = np.asarray(_probs(d0, jnp.asarray(grid))), np.asarray(_log_probs(d0, jnp.asarray(grid)))
    ctx.close(_trapz(pg, grid), 1.0, "C15/total-mass-not-one", tags=tags, rtol=1e-6, atol=1e-6)
    ctx.close(d0.entropy(), _trapz(-pg * lg, grid), "C15/entropy-not-minus-E-log-p", tags=tags, rtol=1e-6, atol=1e-6)
    x, lp = _sample_lp(d0, _keys(case["key"]))
    ctx.close(lp, stats.norm.logpdf(np.asarray(x), l0, s0), "C15/sample-and-log-prob-mismatch", tags=tags, **TOL)
    _ks(ctx, x, stats.norm(l0, s0).cdf, "C15/samples-do-not-follow-the-density", tags=tags)
    _ks(ctx, _samples(d0, _keys(case["key"] + 1)), stats.norm(l0, s0).cdf, "C15/samples-do-not-follow-the-density", tags=tags, via="sample")
    ctx.count(nontrivial=loc.ndim > 0 or l0 != 0.0, classes=["Normal", f"batch={list(loc.shape)}"], key=case)


def oracle_mvn(ctx: Ctx, case):
    loc, scale = np.asarray(case["loc"], np.float64), np.asarray(case["scale"], np.float64)
    d = MultivariateNormalDiag(jnp.asarray(loc), jnp.asarray(scale))
    tags = {"dist": "MultivariateNormalDiag"}
    for p in case["points"]:
        x = loc + np.asarray(p, np.float64) * scale
        lp = d.log_prob(jnp.asarray(x))
        ctx.check(np.asarray(lp).shape == (), "C15/mvn/log-prob-not-scalar", tags=tags)
        ctx.close(lp, stats.norm.logpdf(x, loc, scale).sum(), "C15/product-law-log-prob-not-sum-of-components", tags=tags, **TOL)
        ctx.close(d.prob(jnp.asarray(x)), np.exp(float(lp)), "C15/prob-not-exp-log-prob", tags=tags, **TOL)
    ctx.close(d.entropy(), stats.norm.entropy(loc, scale).sum(), "C15/product-law-entropy-not-sum-of-components", tags=tags, **TOL)
    ctx.close(d.mode(), loc, "C15/mvn/mode", tags=tags, **TOL)
    x, lp = _sample_lp(d, _keys(case["key"]))
    x = np.asarray(x)
    ctx.close(lp, stats.norm.logpdf(x, loc, scale).sum(1), "C15/sample-and-log-prob-mismatch", tags=tags, **TOL)
    for j in range(len(loc)):
        _ks(ctx, x[:, j], stats.norm(loc[j], scale[j]).cdf, "C15/samples-do-not-follow-the-density", tags=tags, component=j)
    if len(loc) >= 2:
        r = np.corrcoef(x[:, 0], x[:, 1])[0, 1]
        ctx.check(abs(r) < 0.12, "C15/mvn/components-not-independent", tags=tags, corr=float(r))  # 7.6 sigma at n=4000
    ctx.count(nontrivial=len(loc) >= 2, classes=["MultivariateNormalDiag", f"k={len(loc)}"], key=case)


def _squashed_ref(y, loc, scale, low, high):
    """log density of y = low + (high-low)*sigmoid(x), x ~ N(loc, scale), incl. the Jacobian."""
    w = high - low
    u = (y - low) / w
    x = special.logit(u)
    return stats.norm.logpdf(x, loc, scale) - np.log(w) - np.log(u) - np.log1p(-u), x


def _sq_tol(x, loc, scale):
    """Conditioning of the inverse sigmoid: relative error ~ eps*exp(|x|) in the pre-image."""
    base = 1e-8 + 4e-15 * np.exp(np.minimum(np.abs(x), 35.0)) * (np.abs(x - loc) / scale**2 + 2.0)
    # distreqx (trusted base) evaluates sigmoid(x) as exp(x) for x < -9 ("more stable sigmoid"), a
    # relative error of e^x in the squashed sample; that tail approximation is upstream numerics,
    # so the tolerance there is the first-order effect of it on the log-density.
    tail = np.where(np.abs(x) > 8.9, 2.0 * np.exp(-np.abs(x)) * (np.abs(x - loc) / scale**2 + 2.0), 0.0)
    return base + tail


def oracle_squashed(ctx: Ctx, case):
    loc, scale = np.asarray(case["loc"], np.float64), np.asarray(case["scale"], np.float64)
    low, high = np.asarray(case["low"], np.float64), np.asarray(case["high"], np.float64)
    multi = case["multi"]
    tags = {"dist": "SquashedMultivariateNormalDiag" if multi else "SquashedNormal"}
    if multi:
        d = SquashedMultivariateNormalDiag(jnp.asarray(loc), jnp.asarray(scale), high=jnp.asarray(high), low=jnp.asarray(low))
    else:
        d = SquashedNormal(jnp.asarray(loc), jnp.asarray(scale), high=jnp.asarray(high), low=jnp.asarray(low))
    red = (lambda a: np.sum(a, axis=-1)) if multi else (lambda a: a)
    for p in case["points"]:
        xpre = loc + np.asarray(p, np.float64) * scale
        y = low + (high - low) * special.expit(xpre)
        if np.any(y <= low) or np.any(y >= high):
            continue
        ref, xr = _squashed_ref(y, loc, scale, low, high)
        lp = np.asarray(d.log_prob(jnp.asarray(y)), np.float64)
        tol = float(np.sum(_sq_tol(xr, loc, scale)))
        ctx.check(lp.shape == (() if multi else loc.shape), "C15/squashed/log-prob-shape", tags=tags, shape=list(lp.shape))
        ctx.check(bool(np.all(np.abs(lp - red(ref)) <= tol)), "C15/squashed/density-not-normal-pushed-through-sigmoid-affine-with-jacobian", tags=tags, observed=lp, expected=red(ref), y=y)
        ctx.close(d.prob(jnp.asarray(y)), np.exp(lp), "C15/prob-not-exp-log-prob", tags=tags, **TOL)
    mode = np.asarray(d.mode(), np.float64)
    ctx.check(mode.shape == loc.shape and bool(np.all((mode >= low) & (mode <= high))), "C15/mode-not-in-support-or-not-most-likely", tags=tags, mode=mode)
    x, lp = _sample_lp(d, _keys(case["key"]))
    x, lp = np.asarray(x, np.float64), np.asarray(lp, np.float64)
    ctx.check(bool(np.all((x >= low) & (x <= high))), "C15/sample-outside-support", tags=tags, min=x.min(0), max=x.max(0))
    inner = np.all((x > low) & (x < high), axis=-1) if multi else ((x > low) & (x < high))
    ref, xr = _squashed_ref(x[inner], loc, scale, low, high)
    ok = np.all(np.abs(xr) < 30, axis=-1) if multi else (np.abs(xr) < 30)
    tol = red(_sq_tol(xr, loc, scale))
    ctx.check(bool(np.all(np.abs(lp[inner] - red(ref))[ok] <= tol[ok])), "C15/sample-and-log-prob-mismatch", tags=tags, worst=float(np.max((np.abs(lp[inner] - red(ref)) - tol)[ok])) if ok.any() else 0.0)
    x_plain = np.asarray(_samples(d, _keys(case["key"] + 1)), np.float64)
    ctx.check(bool(np.all((x_plain >= low) & (x_plain <= high))), "C15/sample-outside-support", tags=tags, via="sample")
    comps = range(len(loc)) if multi else [None]
    for j in comps:
        l_, s_, lo_, hi_ = (loc[j], scale[j], low[j], high[j]) if multi else (float(loc), float(scale), float(low), float(high))
        xs = x[:, j] if multi else x
        cdf = lambda yy, l_=l_, s_=s_, lo_=lo_, hi_=hi_: stats.norm.cdf((special.logit(np.clip((yy - lo_) / (hi_ - lo_), 0, 1)) - l_) / s_)
        _ks(ctx, xs, cdf, "C15/samples-do-not-follow-the-density", tags=tags, component=j)
        _ks(ctx, x_plain[:, j] if multi else x_plain, cdf, "C15/samples-do-not-follow-the-density", tags=tags, component=j, via="sample")
        # total mass over [low, high] incl. the Jacobian (1-D marginal through the public API)
        if multi:
            dj = SquashedNormal(jnp.asarray(l_), jnp.asarray(s_), high=jnp.asarray(hi_), low=jnp.asarray(lo_))
        else:
            dj = d
        # grid uniform in the pre-image (dense where the density lives), trapezoid rule in y
        xg = np.linspace(l_ - 10 * s_, l_ + 10 * s_, 8001)
        yg = lo_ + (hi_ - lo_) * special.expit(xg)
        keep = np.concatenate([[True], np.diff(yg) > 0]) & (yg > lo_) & (yg < hi_)
        yg = yg[keep]
        mass = _trapz(np.asarray(_probs(dj, jnp.asarray(yg))), yg)
        ctx.close(mass, 1.0, "C15/total-mass-not-one", tags=tags, rtol=2e-5, atol=2e-5, component=j)
    asym = bool(np.any(np.abs(low + high) > 1e-6))
    ctx.count(nontrivial=asym, classes=[tags["dist"]] + ["asymmetric_bounds"] * asym, key=case)


PARTS = {
    "categorical": oracle_categorical,
    "bernoulli": oracle_bernoulli,
    "multicategorical": oracle_multicategorical,
    "normal": oracle_normal,
    "mvn": oracle_mvn,
    "squashed": oracle_squashed,
}

# ----------------------------------------------------------------------------- strategies
_logit = st.one_of(st.integers(-3, 3).map(float), st.floats(-8, 8, allow_nan=False).map(lambda x: round(x, 3)))
_key = st.integers(0, 2**31 - 2)


@st.composite
def simplex(draw, n, zeros=True):
    w = [draw(st.one_of(st.just(0.0), st.floats(0.01, 1.0, allow_nan=False))) if zeros else draw(st.floats(0.01, 1.0, allow_nan=False)) for _ in range(n)]
    if sum(w) == 0:
        w[draw(st.integers(0, n - 1))] = 1.0
    s = sum(w)
    return [x / s for x in w]


@st.composite
def categorical_cases(draw):
    n = draw(st.integers(1, 6))
    if draw(st.booleans()):
        return {"logits": [draw(_logit) for _ in range(n)], "probs": None, "key": draw(_key)}
    return {"logits": None, "probs": draw(simplex(n)), "key": draw(_key)}


@st.composite
def bernoulli_cases(draw):
    k = draw(st.integers(1, 4))
    if draw(st.booleans()):
        return {"logits": [draw(_logit) for _ in range(k)], "probs": None, "key": draw(_key)}
    return {"logits": None, "probs": [draw(st.one_of(st.sampled_from([0.0, 1.0, 0.5]), st.floats(0.01, 0.99, allow_nan=False))) for _ in range(k)], "key": draw(_key)}


@st.composite
def multicat_cases(draw):
    dims = draw(st.lists(st.integers(1, 5), min_size=1, max_size=4))
    use_probs = draw(st.booleans())
    pieces = [draw(simplex(n)) if use_probs else [draw(_logit) for _ in range(n)] for n in dims]
    return {"dims": dims, "pieces": pieces, "use_probs": use_probs, "key": draw(_key)}


_loc = st.floats(-3, 3, allow_nan=False).map(lambda x: round(x, 3))
_scale = st.one_of(st.sampled_from([0.05, 1.0, 3.0]), st.floats(0.05, 3, allow_nan=False).map(lambda x: round(x, 3)))
_pt = st.one_of(st.sampled_from([0.0, 1.0, -1.0, 3.5, -3.5]), st.floats(-5, 5, allow_nan=False))


@st.composite
def normal_cases(draw):
    batch = draw(st.sampled_from([(), (3,)]))
    n = 3 if batch else 1
    loc = [draw(_loc) for _ in range(n)]
    scale = [draw(_scale) for _ in range(n)]
    return {"loc": loc if batch else loc[0], "scale": scale if batch else scale[0], "points": [draw(_pt) for _ in range(4)], "key": draw(_key)}


@st.composite
def mvn_cases(draw):
    k = draw(st.integers(1, 4))
    return {"loc": [draw(_loc) for _ in range(k)], "scale": [draw(_scale) for _ in range(k)], "points": [[draw(_pt) for _ in range(k)] for _ in range(3)], "key": draw(_key)}


@st.composite
def squashed_cases(draw, multi):
    k = draw(st.integers(1, 3)) if multi else 1
    low = [draw(st.one_of(st.sampled_from([-1.0, 0.0, -2.0]), st.floats(-5, 4.9, allow_nan=False).map(lambda x: round(x, 2)))) for _ in range(k)]
    high = [l + draw(st.one_of(st.sampled_from([2.0, 1.0, 0.1, 10.0]), st.floats(0.1, 10, allow_nan=False).map(lambda x: round(x, 2)))) for l in low]
    loc = [draw(_loc) for _ in range(k)]
    scale = [draw(_scale) for _ in range(k)]
    pts = [[draw(_pt) for _ in range(k)] for _ in range(4)]
    if multi:
        return {"multi": True, "loc": loc, "scale": scale, "low": low, "high": high, "points": pts, "key": draw(_key)}
    return {"multi": False, "loc": loc[0], "scale": scale[0], "low": low[0], "high": high[0], "points": [p[0] for p in pts], "key": draw(_key)}


def run(ctx: Ctx):
    ctx.rule = (
        "Generated parameterisations of all seven distribution classes (logits in +-8 or probs on the simplex with exact zeros; "
        "loc in +-3, scale in [0.05,3]; asymmetric squashing bounds of width 0.1..10; 1-4 components given flat and as sequences): "
        "prob==exp(log_prob), exact total mass by enumeration (discrete) or scipy quadrature of exp(log_prob) incl. the squashing "
        "Jacobian (continuous), pointwise density vs float64 references (scipy.stats.norm, analytic Jacobian), sample/mode in "
        "support, sample_and_log_prob consistency, 4000-sample KS / chi-square goodness of fit (false alarm < 1e-9), entropy vs "
        "exact sums / quadrature, product laws == sums over components, flat == sequence parameterisation. Non-trivial: asymmetric "
        "bounds, components of different sizes, probs with an exact zero, batch shapes."
    )
    ctx.assumptions = ["scipy.stats / scipy.integrate.quad / scipy.special as float64 references", "JAX PRNG quality for the goodness-of-fit tests", "x64"]
    ctx.clear_caches_every = ctx.n(0, 300)  # parameter shapes vary from case to case
    n = ctx.n(90, 3000)
    ctx.run_given("categorical", categorical_cases(), oracle_categorical, n)
    ctx.run_given("bernoulli", bernoulli_cases(), oracle_bernoulli, n)
    ctx.run_given("multicategorical", multicat_cases(), oracle_multicategorical, n)
    ctx.run_given("normal", normal_cases(), oracle_normal, ctx.n(60, 2000))
    ctx.run_given("mvn", mvn_cases(), oracle_mvn, ctx.n(60, 2000))
    ctx.run_given("squashed", squashed_cases(False), oracle_squashed, ctx.n(70, 2500))
    ctx.run_given("squashed", squashed_cases(True), oracle_squashed, ctx.n(50, 2000))
