#!/bin/sh
# usage: tools/seed_eval.sh <seed-id> <worktree> <PROP> [more PROPs]
# 1) copies the sub-agent's deliverables to seeded/<id>/, 2) confirms demo.py fails with the patch and
# passes without it (scratch copies of /repo/src), 3) runs the registered quick check(s) against the patched copy.
id=$1; wt=$2; shift 2
mkdir -p /verif/seeded/$id
cp $wt/_seed/patch.diff $wt/_seed/demo.py $wt/_seed/meta.json /verif/seeded/$id/ 2>/dev/null
cd /verif
T=$(mktemp -d /tmp/seedeval_XXXX)
cp -r /repo/src $T/src
echo "== demo on unpatched tree (must pass)"
( cd $T && JAX_PLATFORMS=cpu PYTHONPATH=$T/src /venv/bin/python /verif/seeded/$id/demo.py >/dev/null 2>$T/err0; echo "rc=$?" )
patch -p1 -d $T -i /verif/seeded/$id/patch.diff >/dev/null || echo "PATCH DOES NOT APPLY"
echo "== demo on patched tree (must fail)"
( cd $T && JAX_PLATFORMS=cpu PYTHONPATH=$T/src /venv/bin/python /verif/seeded/$id/demo.py >/dev/null 2>$T/err1; echo "rc=$?"; tail -2 $T/err1 )
rm -rf $T
for p in "$@"; do
  echo "== check $p against the patch"
  /verif/tools/mutate.py --patch /verif/seeded/$id/patch.diff $p
done
