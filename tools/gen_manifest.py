#!/venv/bin/python
"""Regenerates /verif/MANIFEST.json from the table below (one entry per *registered* check)."""

import json
from pathlib import Path

VERIF = Path(__file__).resolve().parent.parent

CHECKS = {
    "C02": dict(
        technique="property-based exploration of trajectories with structured action generators (corner / held / pumping rules), validity predicates on every output (process pool over all environments)",
        text="All 19 built-in environments (5 classic control, 11 MuJoCo, 3 Unitree G1) x constructor configurations x wrapper stacks: "
        "vmapped trajectories through the Gym-style step inside one lax.scan, per-segment action rules drawn from {space sample, low "
        "corner, high corner, zero/middle, held corner, energy pumping}; every observation is checked against the declared space "
        "(shape, dtype, bounds, NaN; plus the space's own contains on a sample), sampled actions are members, rewards finite float "
        "scalars, flags boolean scalars, repeated calls with a second environment object constructed in between are identical. A trace-only part (jax.eval_shape of reset/step) compares the emitted "
        "(shape, dtype) with the declared spaces for every boolean constructor flag toggled singly, all together and in seeded random "
        "combinations. Wrapper "
        "stacks cover TimeLimit, ClipAction, RescaleAction, FlattenObservation, ClipObservation, RescaleObservation with asymmetric "
        "targets, ClipReward and Identity. The "
        "runner asserts that MountainCar/Acrobot/Pendulum trajectories actually reach a bound.",
        design="DESIGN.md §4 C02",
        note="Trusted: reachability through the auto-resetting step only; float32 default mode. Compile-bound for MuJoCo/G1 (one configuration each in the quick tier). 11 mutants.",
    ),
    "C01": dict(
        technique="stateful (rule-based machine) property-based testing with a reference interpreter; Hypothesis @given over boundary-biased states for built-in envs",
        text="Hypothesis rule-based machine (reset/step) over seeded pools of wrapper stacks (depth 0-4, all wrapper kinds) on generated "
        "finite MDPs, in lock-step with a NumPy reference of the stack; classic-control envs bare and under TimeLimit from "
        "boundary-biased start states (goal regions, thresholds, walls); MuJoCo envs along random/corner/held action histories in a "
        "process pool. Every step is judged against the environment's own transition/reward/terminal/truncate/observation and a "
        "freshness predicate for post-done states.",
        design="DESIGN.md §4 C01",
        note="Trusted: vlib/wrapref.py StackRef + vlib/mdp.py Interp; components are key-independent (asserted per case). 8 mutants of base_env.step/reset/TimeLimit all caught.",
    ),
    "C03": dict(
        technique="property-based testing (Hypothesis) + exhaustive enumeration of done patterns, float64 reference oracle, metamorphic cut",
        text="Generated rollouts (all 2^T done patterns for T<=9 quick / T<=12 thorough, Hypothesis-drawn larger ones) are fed to "
        "RolloutBuffer.compute_returns_and_advantages in x64 and compared with a float64 loop written from the statement; "
        "metamorphic cut law, lambda=0/1 limits, vmapped streams, and buffers captured from the real iteration() of PPO/A2C/REINFORCE "
        "on finite MDPs are checked per environment row against GAE cut at the episode ends the environment produced (replayed by "
        "the reference interpreter, not read from the buffer's done column); gamma / lambda reach the algorithm through its constructor "
        "(lambda 0 / 1 also typed as ints). Sampling cannot prove the identity for all reals; the done-pattern dimension "
        "is exhaustive for small T.",
        design="DESIGN.md §4 C03",
        note="Trusted: NumPy float64 arithmetic, vlib/refs.py GAE loop (validated by 6 mutants of rollout.py, all caught).",
    ),
    "C04": dict(
        technique="property-based testing over generated finite MDPs (Hypothesis) with a NumPy reference interpreter as oracle",
        text="Generated MDP tables, time limits, table policies with counter state, start states and keys are run through the real "
        "collect_rollout()/iteration() of PPO, A2C and REINFORCE (x64); every buffer row (observation, stored action, value, "
        "log-prob, clipped execution, reward incl. truncation-only bootstrap, done, mask, policy state, post-done resets) and the "
        "carried step state are re-derived by an interpreter of the tables. Class fractions (clip active, truncation-only, "
        "termination-only, both on one step) are asserted so the generator cannot go vacuous.",
        design="DESIGN.md §4 C04",
        note="Trusted: vlib/mdp.py interpreter; the policy double's evaluate_action/value as 'the policy's own numbers'; for the CartPole/Pendulum part the environment's own functional API. 12 mutants of on_policy.step all caught; the library MLP policy and built-in environments are exercised as well as the table doubles.",
    ),
    "C05": dict(
        technique="property-based testing over generated finite MDPs (Hypothesis) with a NumPy reference interpreter as oracle",
        text="Generated MDP tables, time limits, behaviour policies (Q-table through lerax's epsilon-greedy; deterministic action table "
        "with out-of-bounds entries) and (buffer_size, learning_starts, num_envs, num_steps) combos below/above per-env capacity "
        "are run through the real reset() warm-up and iteration() of DQN and SAC; each newly stored slot of each per-env buffer "
        "and the insertion counts are re-derived by the interpreter. A second part runs DQN(MLPQPolicy) on CartPole and "
        "SAC(MLPSACPolicy) on Pendulum under generated time limits and re-derives every stored row with the environment's own "
        "functional API (observation/transition/reward/terminal/truncate) from the state the row started in.",
        design="DESIGN.md §4 C05",
        note="Trusted: vlib/mdp.py interpreter; learning rate 0 keeps the behaviour policy fixed. 12 mutants of off_policy.py all caught.",
    ),
    "C06": dict(
        technique="stateful (rule-based machine) property-based testing against a deque model; Hypothesis @given for joint sampling",
        text="Hypothesis rule-based machine over add/sample histories with capacity 1..12 and pytree observation/action spaces; every "
        "row encodes its insertion number in every field (policy-state leaves on top of 2^24+1, so a silent cast to float32 corrupts them) so field alignment, contents == most recent min(n,C) and sample validity "
        "(stored, no duplicates, no unwritten slot) are decidable after every step; joint sampling over stacked per-env buffers "
        "with unequal fill levels including empty and wrapped ones.",
        design="DESIGN.md §4 C06",
        note="Trusted: collections.deque(maxlen=C) as the model. 8 mutants of replay.py all caught.",
    ),
    "C07": dict(
        technique="property-based testing (Hypothesis) of the static loss functions / sac_train against float64 reference formulas, incl. gradient and optimiser-step oracles",
        text="Generated batches with every done/timeout combination, gamma, alpha, drawn Q tables (online and target argmax differ) and "
        "real MLP networks from drawn keys: DQN.dqn_loss value and online gradient vs r+gamma*(1-terminated)*Q_tgt(s',argmax Q_on(s')); "
        "SAC.sac_train on a buffer of exactly batch_size rows with a deterministic policy double: reported q_loss vs the reference, "
        "the returned critics vs an Adam step on the semi-gradient computed by the harness, and bit-identical critics with/without "
        "the actor update. Part iteration: the real reset()+iteration() of DQN and SAC (1 and 2 environments, generated finite MDPs) "
        "from a state whose target networks were replaced by independent ones, batch_size = every stored row: the online networks "
        "it returns equal one optimiser step on the TD objective built from the state's target networks. Mismatches are bucketed by "
        "recognisable root cause.",
        design="DESIGN.md §4 C07",
        note="Trusted: the networks' own forward passes; optax.adam; NumPy float64. 12 mutants of dqn.py/sac.py all caught.",
    ),
    "C13": dict(
        technique="property-based testing over generated wrapper programs with a reference composed from the declarations; differential testing of adapters against twin Gymnasium/Gymnax environments",
        text="Seeded pools of wrapper stacks (depth 1-4, all 11 documented wrappers) over generated finite MDPs: every functional "
        "component of the wrapped env vs a NumPy reference (mapped action reaches dynamics, reward and info; declared signal only; "
        "advertised spaces; pass-through of mask/flags/info/name/unwrapped); rescale corner laws; every documented wrapper is "
        "constructed and stepped; TimeLimit histories (incl. nested limits) in lock-step with the reference; GymToLerax/GymnaxToLerax "
        "vs twin envs (Gymnax adapters built with drawn non-default episode limits), LeraxToGym/LeraxToGymnax vs the lerax env's own "
        "components (bare and time-limited), and reset(seed) on a used adapter restarting the episode a fresh adapter starts "
        "(small seeds incl. 0).",
        design="DESIGN.md §4 C13",
        note="Trusted: vlib/wrapref.py; Gymnasium/Gymnax determinism given seed/key. 16 mutants all caught.",
    ),
    "C19": dict(
        technique="stateful (rule-based machine) property-based testing against an accumulator model; interpreter-based oracle for logged scalars; decomposition oracle for average_reward",
        text="(a) Hypothesis machine over LoggingCallbackStepState.next histories vs an accumulator model; (b) reset()+iteration() of "
        "PPO/A2C/REINFORCE/DQN with LoggingCallback and a recording backend: delivered scalars vs per-env EMAs of environment reward "
        "sums/lengths recomputed from the MDP tables, one record per iteration in order with cumulative steps; (c) average_reward "
        "(while/scan variants, caps; table policies and a Q-table policy whose greedy action depends on its own step counter): n*result "
        "must decompose into n interpreter-computed episode returns, every start state occurs over keys, DP range bounds for "
        "stochastic policies.",
        design="DESIGN.md §4 C19",
        note="Trusted: vlib/mdp.py interpreter; EMA convention of the LoggingCallback docstring. 12 mutants (see mutants/C19.json).",
    ),
    "C08": dict(
        technique="property-based testing (Hypothesis) of the static loss functions and chained optimiser steps against float64 reference formulas; collected-data metamorphic law",
        text="Generated buffers (advantages, returns, stored values/log-probs with log-ratios spread over +-1.5) and real "
        "MLPActorCriticPolicy instances over Discrete / Box scalar / Box vector / MultiBinary / MultiDiscrete action spaces: "
        "PPO.ppo_loss, A2C.a2c_loss and REINFORCE.reinforce_loss values and every stats field vs NumPy float64 formulas from the "
        "statement (clipped surrogate, PPO2 value clipping with max, joint entropy, approx KL); per-row gradient support of the "
        "clipped surrogate (zero exactly on saturated rows, non-zero elsewhere); two chained train_batch/train calls (from optimiser "
        "moments warmed by a random gradient, the second on the returned optimiser state) vs clip_by_global_norm+adam applied by the "
        "harness to the gradient of a float64 transcription (below and above the norm bound); rollouts collected by the real "
        "collector with the library MLP policy (Box samples outside narrow bounds) give approx_kl 0 and a surrogate of -mean(A).",
        design="DESIGN.md §4 C08",
        note="Trusted: the policy's evaluate_action per-sample outputs; optax; NumPy float64. 15 mutants all caught. A first Adam step from a fresh state is lr*sign(g), hence the warmed moments.",
    ),
    "C09": dict(
        technique="property-based testing (Hypothesis) of the buffer API with id-encoded rows; end-to-end visit-count recovery through PPO.train by gradient tagging",
        text="Buffers whose every leaf encodes the sample id: flatten_axes / batch_indices / gather / batches / sample checked for "
        "partition and row integrity over generated (num_envs, num_steps, batch_size, pytree observation kinds, keys, every accepted "
        "spelling and order of batch_axes); PPO.train run "
        "end-to-end with a tagging policy (value table per sample, plain SGD, value loss only) so visit counts are recovered exactly "
        "from (v-ret)=2^-k for seeded (num_envs, num_steps, num_batches, num_epochs) configurations x 12 keys: at most once per epoch, "
        "exactly floor(N/B)*B per epoch, dropped set varies with the key, epochs reshuffle; misaligned row fields poison the value "
        "(NaN) and trip lerax's own finiteness check.",
        design="DESIGN.md §4 C09",
        note="Trusted: x64 exactness of 2^-k; optax.sgd substituted through the public optimizer field. 9 mutants all caught.",
    ),
    "C10": dict(
        technique="property-based testing over iteration histories (Hypothesis) with a schedule model; ordered debug callback for learn()",
        text="Histories of 3-12 jitted iteration() calls for DQN (interval 1..5) and SAC (tau, policy_frequency, autotune) on generated "
        "finite MDPs with a counting callback: iteration counter +1, num_envs*num_steps env steps per iteration, DQN target "
        "bit-identical to the online snapshot at the latest multiple of the interval, SAC targets = Polyak average of the new "
        "critics exactly once (1e-12), actor/temperature gating asserted in both directions; learn() for PPO/A2C/DQN/SAC with "
        "divisible and non-divisible totals: iteration count, counter sequence, cumulative steps.",
        design="DESIGN.md §4 C10",
        note="Trusted: the schedule model in the check; x64. 13 mutants all caught.",
    ),
    "C14": dict(
        technique="property-based testing (Hypothesis, recursive space strategy) against a pure-Python membership/equality oracle; Gymnasium round trip",
        text="Recursive strategy over all six space kinds (bounds incl. +-inf, low==high, -0.0; nesting) with constructed members, "
        "boundary members, one-defect near-misses and foreign objects: contains/`in` must be a scalar boolean equal to the reference "
        "predicate and never raise; sample (incl. masked Discrete) and canonical are members; flatten_sample size, injectivity and "
        "independence of the key order a Dict member was written in; "
        "==/hash on copy / perturbed / extended / zero-sign / reordered / independent pairs; round trip through Gymnasium spaces.",
        design="DESIGN.md §4 C14",
        note="Trusted: the `member`/`desc_equal` predicates in the check. Subnormal near-misses are not generated (XLA:CPU flushes them to zero). 18 mutants (9 fix reversals).",
    ),
    "C15": dict(
        technique="property-based testing (Hypothesis) against scipy float64 references, exact enumeration, trapezoid quadrature and goodness-of-fit tests",
        text="Generated parameterisations of all seven distribution classes: prob==exp(log_prob); total mass by exact enumeration "
        "(discrete) or quadrature of exp(log_prob) incl. the squashing Jacobian; pointwise densities vs scipy.stats.norm and the "
        "analytic Jacobian for arbitrary asymmetric bounds; samples (both sample() and sample_and_log_prob()) and mode in the "
        "support; reported log-prob == log_prob(sample); 4000-sample KS / chi-square goodness of fit incl. joint independence of "
        "product-law components (false alarm < 1e-9); entropy vs exact sums/quadrature; product laws == sums over components; flat "
        "== sequence parameterisation.",
        design="DESIGN.md §4 C15",
        note="Trusted: scipy, JAX PRNG, distreqx as upstream (its documented tail approximation of sigmoid for x<-9 is tolerated). 12 mutants all caught.",
    ),
    "C16": dict(
        technique="exhaustive enumeration of masks (n<=5 quick / 6 thorough) x seeded logits; property-based testing (Hypothesis) through policies",
        text="Every non-empty mask for small n x logit draws (masked arg-max, ties, widely separated logits): masked Categorical "
        "probabilities vs float64 renormalised softmax, -inf log-prob, allowed mode, 128 samples all allowed and likely allowed "
        "actions seen; MultiCategorical masks (flat and sequence), Bernoulli masks; end-to-end through MLPActorCriticPolicy "
        "(Discrete/MultiDiscrete/MultiBinary, output layers scaled up to 3000x) and MLPQPolicy (epsilon 0/0.05/0.25/1): key-less == "
        "greedy mode and deterministic, keyed samples allowed, reported log-prob == evaluate_action's, joint frequencies of 1024 sampled "
        "MultiDiscrete/MultiBinary action vectors vs exp(reported log-prob) (exact binomial tail < 1e-12), non-greedy frequency <= "
        "epsilon + 6 sigma with an independent 20000-key confirmation.",
        design="DESIGN.md §4 C16",
        note="Trusted: float64 softmax; JAX PRNG. 13 mutants all caught.",
    ),
    "C18": dict(
        technique="round-trip property-based testing (Hypothesis) over policy classes x spaces x architectures x path spellings x overwrite histories; negative cases for shape mismatches",
        text="serialize -> deserialize with the same constructor arguments and a different key in fresh temporary directories (with/"
        "without .eqx, nested new directories, spaces, paths already holding an older checkpoint): every array leaf bit-identical "
        "(dtype, shape, bytes) and equal outputs, for policies saved exactly as constructed and for ones rebuilt with moved parameters "
        "(Dict observation spaces with keys in non-sorted order); loading into a policy with one architecture argument / observation / action "
        "dimension changed or two arguments swapped, in both directions (checkpoint larger or smaller than the target), incl. all-square "
        "layers where only a depth differs, must raise.",
        design="DESIGN.md §4 C18",
        note="Trusted: filesystem; Python-scalar fields compared at float32 precision. 6 mutants caught, 2 equivalent mutants discarded (equinox re-adds the suffix itself).",
    ),
    "C11": dict(
        technique="metamorphic property-based testing: repeated (bit-identical) / re-keyed (different) / observed (equal up to rounding) learn() runs, seeded configurations in a process pool",
        text="For PPO, A2C, REINFORCE, DQN and SAC on CartPole / Pendulum / generated finite MDPs with seeded hyper-parameters and keys: "
        "learn() twice with identical inputs must give bit-identical array leaves, another key must give different ones, the input "
        "policy is compared with a host copy taken beforehand, and every observer set (None vs [], a no-op callback, ProgressBar, "
        "LoggingCallback with a recording back end, LoggingCallback with Console+TensorBoard, a list of two) must reproduce the "
        "unobserved run up to reassociation-level rounding (rtol 1e-4 / atol 1e-5 on float leaves, integer leaves exactly: an observed "
        "run is a different XLA program and was measured 1 ulp apart; a desynchronised key or observer feedback moves parameters by "
        "O(learning rate)). One single-iteration run per algorithm (exempt from the other-key clause: a first Adam step is sign-only) and one "
        "three-iteration run per on-policy algorithm with a learning-rate warm-up from 0 extend the configurations; the same training "
        "(5-entry Dict observation) in four fresh interpreter processes with different PYTHONHASHSEED values must give one digest.",
        design="DESIGN.md §4 C11",
        note="Trusted: bit-identity within one process/XLA build is what the statement needs. Each (algorithm, env, config, observer structure) costs a learn() compile, so the number of configurations is small (10 quick / 40 thorough). 4 mutants caught, 1 equivalent discarded.",
    ),
    "C12": dict(
        technique="metamorphic property-based testing: eager = jit = vmap per environment function; N-env collection = N single-env collections; perturbation non-interference through iteration()",
        text="(a) initial/transition/observation/reward/terminal/truncate of the built-in environments (classic control with wrapper "
        "stacks, MuJoCo; G1 in the thorough tier) evaluated eagerly, under jit and vmapped then indexed, on states reached by "
        "sampled action prefixes; (b1) the exact filter_vmap(collect_rollout) call of iteration() vs per-environment collections on "
        "generated finite MDPs; (b2) through the real iteration() with the buffer captured from ctx.locals: replacing only env j's "
        "start state must leave every field of every other environment's slice bit-identical (incl. advantages, returns, carried "
        "state), on-policy and for DQN's per-env replay buffers; (b3) vectorised DQN collection acts with the current online policy; "
        "(b4) N environments started in the same state under a uniform policy never run in lock-step through reset()/iteration(); "
        "(a') classic-control environments rebuilt with every numeric constructor option passed as a plain Python float / list.",
        design="DESIGN.md §4 C12",
        note="Trusted: float32 reassociation tolerance: 1e-5/1e-6 element-wise for classic control; for MuJoCo/G1 only the physical state and task bookkeeping are compared, norm-wise per leaf (2e-3; 5e-2 across one frame-skipped contact step) because float32 contact-solver internals differ by percents between the vmapped and the single program. Single transitions only.",
    ),
    "C17": dict(
        technique="differential property-based testing against the installed Gymnasium reference environments (classic control in x64; MuJoCo v5 with physics substituted and single-step physics vs C MuJoCo)",
        text="Classic control: boundary-biased states x all actions - lerax.dynamics vs the reference's own vector field, lerax.clip vs the "
        "reference's limit rules (validated against Gymnasium's step in the same run), reward/termination of the very transition "
        "Gymnasium produced, CartPole(Euler) trajectories up to 200 steps (1e-9), initial-state ranges over 4096 keys. MuJoCo (11 envs, "
        "process pool): model/frame_skip/dt/control-range identity, reset observation vs _get_obs() after set_state, Gymnasium's own "
        "step() judging lerax's successor state (observation, reward, every shared reward component, termination; first step vs later "
        "steps), every documented constructor flag toggled and drawn weight/range changes compared with Gymnasium built with the same "
        "options (observation/reward/termination/info functions on states of the default dynamics), single control step of MJX vs C MuJoCo incl. presence of external contact "
        "forces.",
        design="DESIGN.md §4 C17",
        note="Trusted: Gymnasium 1.3 and MuJoCo C as the reference; MJX-vs-C solver differences are tolerated by a floor fraction (layer mj_physics). 18 mutants (9 fix reversals).",
    ),
    "C20": dict(
        technique="property-based testing (Hypothesis) of the pure gait helpers incl. 5000-step histories; range/identity oracles over vmapped initial() and rollouts of the three G1 tasks (process pool)",
        text="Gait helpers on generated phases (incl. +-pi and +-1 ulp), frequencies 0-120 Hz (also several cycles per control step), dt in {0.02, 0.04, 0.1}: range, increment "
        "2*pi*f*dt (mod 2*pi), half-cycle offset, over up to 5000 steps; desired foot height range, zero at -pi, peak at 0, monotone "
        "halves, continuity. Environments: vmapped initial() over 48 (quick) / 1024 (thorough) keys per task and range configuration: "
        "every randomised model field inside its configured range, every other model leaf bit-identical to the nominal model, command "
        "and gait frequency ranges (exact zero command for standing tasks; documented zero-command episodes allowed for locomotion), "
        "mjx.forward reproduces stored body/site poses; rollouts with random in-space actions: phase coherence per control step.",
        design="DESIGN.md §4 C20",
        note="Trusted: float32 slack 1e-5..1e-6 on range ends. Compile-bound: 1 (quick) / 3 (thorough) range configurations per task. 10 mutants caught, 1 equivalent discarded.",
    ),
}

PENDING_REASON = "check not built yet in this round (planned, see DESIGN.md §8); not claimed until it is quiet on the unchanged tree"


def main():
    props = [json.loads(l)["id"] for l in (VERIF / "properties.jsonl").read_text().splitlines() if l.strip()]
    checks = []
    for pid in props:
        if pid not in CHECKS:
            continue
        c = CHECKS[pid]
        checks.append(
            {
                "property_id": pid,
                "quick_cmd": f"./check {pid} --tier quick",
                "thorough_cmd": f"./check {pid} --tier thorough",
                "evidence_file": f"evidence/{pid}.json",
                "replay_cmd_template": f"./check {pid} --replay {{path}}",
                "engine": "hypothesis-runner",
                "level_claimed": {"category": "exploration", "text": c["text"], "design_ref": c["design"]},
                "level_note": c["note"],
                "technique": c["technique"],
            }
        )
    manifest = {
        "version": 1,
        "setup_cmd": "sh ./setup.sh",
        "hooks": {
            "guard": "LERAX_VERIF",
            "enable": "no source hooks are needed: checks import /repo/src directly (editable install) and observe internals through the public callback ctx.locals extension point",
            "baseline_off_cmd": "cd /repo && /venv/bin/python -m pytest -ra -q -p no:cacheprovider --timeout=900 --continue-on-collection-errors",
            "source_commits": [],
            "add_only": True,
        },
        "engines": [
            {
                "name": "hypothesis-runner",
                "path": "vlib/runner.py",
                "serves_properties": [c["property_id"] for c in checks],
                "kind_free_text": "Hypothesis 6.168 @given / rule-based state machines + exhaustive enumeration of small finite sub-domains, explicit oracles (float64 references, finite-MDP reference interpreter, Gymnasium differential, metamorphic relations), collect-then-shrink bucketing, JSON replay files",
            }
        ],
        "checks": checks,
        "not_applicable": [{"property_id": p, "reason": PENDING_REASON} for p in props if p not in CHECKS],
        "notes": "Baseline on the repaired tree (28 fix: commits, guard-free): 160 passed, 7 failed - exactly BASELINE.json's stable_pass / always_fail sets (tests/test_export.py fails without any change). All checks are generated-input search against explicit oracles; VERIF_SEED seeds every Hypothesis run; exit 2 = harness error (never reported as a violation). known_findings.json lists recorded/fixed defects.",
    }
    (VERIF / "MANIFEST.json").write_text(json.dumps(manifest, indent=1) + "\n")
    print(f"MANIFEST.json: {len(checks)} checks, {len(manifest['not_applicable'])} not claimed")


if __name__ == "__main__":
    main()
