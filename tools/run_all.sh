#!/bin/sh
# usage: tools/run_all.sh [quick|thorough] [jobs] [PROP...]   — runs registered checks against /repo, rewriting evidence/
tier=${1:-quick}; jobs=${2:-3}; shift 2 2>/dev/null
cd "$(dirname "$0")/.."
props="$@"
[ -z "$props" ] && props=$(/venv/bin/python -c "import json;print(' '.join(c['property_id'] for c in json.load(open('MANIFEST.json'))['checks']))")
LOGDIR=${RUNALL_LOGDIR:-/tmp/runall}; mkdir -p $LOGDIR
echo $props | tr ' ' '\n' | xargs -P $jobs -I{} sh -c "./check {} --tier $tier > $LOGDIR/{}.log 2>&1; echo {} rc=\$? \$(grep '^\[{}\]' $LOGDIR/{}.log | tail -1)"
