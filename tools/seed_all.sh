#!/bin/sh
# Re-runs every stored seeded change against the current quick checks (scratch copies of /repo/src); prints one line per seed.
cd "$(dirname "$0")/.."
jobs=${1:-2}
ls seeded | xargs -P $jobs -I{} sh -c 'p=$(echo {} | cut -c1-3); r=$(tools/mutate.py --patch seeded/{}/patch.diff $p 2>&1 | grep "CAUGHT\|MISSED\|HARNESS\|STALE" | head -1); echo "{} $r"'
