#!/bin/sh
# Re-runs every stored seeded change against the current quick checks (scratch copies of /repo/src); prints one line per seed.
cd "$(dirname "$0")/.."
jobs=${1:-2}
ls seeded | grep -v -x -F "$(grep -l '"obsolete": true' seeded/*/meta.json | cut -d/ -f2)" | xargs -P $jobs -I{} sh -c 'p=$(/venv/bin/python -c "import json,sys; print(json.load(open(sys.argv[1])).get(\"eval_with\", sys.argv[2]))" seeded/{}/meta.json $(echo {} | cut -c1-3)); r=$(tools/mutate.py --patch seeded/{}/patch.diff $p 2>&1 | grep "CAUGHT\|MISSED\|HARNESS\|STALE" | head -1); echo "{} $r"'
