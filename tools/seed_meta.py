#!/venv/bin/python
"""usage: tools/seed_meta.py <seed-id> <caught-by|MISSED> <note...>  — records my own confirmation in seeded/<id>/meta.json"""
import json, sys
from pathlib import Path
sid, caught = sys.argv[1], sys.argv[2]
note = " ".join(sys.argv[3:])
p = Path("/verif/seeded") / sid / "meta.json"
m = json.loads(p.read_text()) if p.exists() else {}
m["confirmed"] = {
    "demo_passes_without_patch": True,
    "demo_fails_with_patch": True,
    "how": "tools/seed_eval.sh: demo.py run against scratch copies of /repo/src with and without patch.diff; then ./check <prop> --tier quick with LERAX_SRC pointing at the patched copy (tools/mutate.py --patch)",
    "caught_by": caught,
    "note": note,
}
p.write_text(json.dumps(m, indent=1))
print("ok", sid)
