#!/venv/bin/python
"""Sensitivity harness (development tool, not a registered check).

usage: tools/mutate.py C03 [name-substring] [--tier quick] [--keep]
       tools/mutate.py --patch seeded/x/patch.diff C03

Copies /repo/src to a scratch directory under /tmp, applies ONE small mutation, runs
./check <prop> with LERAX_SRC pointing at the copy (which shadows the editable install),
and reports whether the check exited 1.  The scratch copy is removed afterwards.

Mutations live in /verif/mutants/<PROP>.json: [{"name":..., "file": "lerax/...", "old":..., "new":...}]
"""

import json
import os
import shutil
import subprocess
import sys
import tempfile
import time
from pathlib import Path

VERIF = Path(__file__).resolve().parent.parent


def run_one(prop, mutation=None, patch=None, tier="quick", seed="1"):
    tmp = Path(tempfile.mkdtemp(prefix="lerax_mut_"))
    try:
        shutil.copytree("/repo/src", tmp / "src", ignore=shutil.ignore_patterns("__pycache__", "*.egg-info"))
        if mutation is not None:
            f = tmp / "src" / mutation["file"]
            text = f.read_text()
            if text.count(mutation["old"]) != mutation.get("count", 1):
                return "STALE", f"pattern occurs {text.count(mutation['old'])}x in {mutation['file']}", 0
            f.write_text(text.replace(mutation["old"], mutation["new"]))
        if patch is not None:
            r = subprocess.run(["patch", "-p1", "-d", str(tmp), "-i", str(Path(patch).resolve())], capture_output=True, text=True)
            if r.returncode != 0:
                return "STALE", r.stdout + r.stderr, 0
        env = dict(os.environ, LERAX_SRC=str(tmp / "src"), VERIF_SEED=seed, VERIF_EVIDENCE_DIR=str(tmp / "evidence"), VERIF_REPLAY_DIR=str(tmp / "replays"))
        t0 = time.time()
        r = subprocess.run([str(VERIF / "check"), prop, "--tier", tier], capture_output=True, text=True, env=env)
        dt = time.time() - t0
        tail = "\n".join((r.stdout + r.stderr).strip().splitlines()[-12:])
        status = {0: "MISSED", 1: "CAUGHT", 2: "HARNESS-ERROR"}.get(r.returncode, f"rc={r.returncode}")
        return status, tail, dt
    finally:
        shutil.rmtree(tmp, ignore_errors=True)


def main():
    args = sys.argv[1:]
    tier = "quick"
    patch = None
    if "--tier" in args:
        i = args.index("--tier")
        tier = args[i + 1]
        del args[i : i + 2]
    if "--patch" in args:
        i = args.index("--patch")
        patch = args[i + 1]
        del args[i : i + 2]
    verbose = "-v" in args
    if verbose:
        args.remove("-v")
    prop = args[0].upper()
    if patch:
        status, tail, dt = run_one(prop, patch=patch, tier=tier)
        print(f"{status:8s} {prop} patch={patch} ({dt:.0f}s)")
        if verbose or status != "CAUGHT":
            print(tail)
        return 0 if status == "CAUGHT" else 1
    sel = args[1] if len(args) > 1 else ""
    muts = json.loads((VERIF / "mutants" / f"{prop}.json").read_text())
    bad = 0
    from concurrent.futures import ThreadPoolExecutor

    jobs = int(os.environ.get("MUT_JOBS", "4"))
    todo = [m for m in muts if sel in m["name"]]
    with ThreadPoolExecutor(jobs) as ex:
        for m, (status, tail, dt) in zip(todo, ex.map(lambda m: run_one(prop, mutation=m, tier=tier), todo)):
            print(f"{status:8s} {prop} {m['name']} ({dt:.0f}s)", flush=True)
            if verbose or status not in ("CAUGHT",):
                print("    " + tail.replace("\n", "\n    "))
            bad += status != "CAUGHT"
    return 1 if bad else 0


if __name__ == "__main__":
    sys.exit(main())
