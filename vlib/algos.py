"""Hyper-parameter overrides that stay behind the algorithm's constructor.

Checks keep one algorithm object per static configuration (its optax closures are compared by identity by
filter_jit, so a fresh object means a fresh compile).  Overriding a float hyper-parameter with ``eqx.tree_at`` on that
template would bypass ``__init__`` - a constructor that ignores or mangles the argument would go unnoticed.
``transplant`` constructs a throw-away instance with the requested arguments and copies the *stored* fields into the
template as array leaves."""

from __future__ import annotations

import equinox as eqx
from jax import numpy as jnp


def transplant(template, ctor_kwargs: dict, **overrides):
    made = type(template)(**{**ctor_kwargs, **overrides})
    for name in overrides:
        template = eqx.tree_at(lambda a, n=name: getattr(a, n), template, jnp.asarray(getattr(made, name), dtype=float))
    return template
