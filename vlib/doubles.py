"""Test doubles: table-driven policies carrying a counter state, recording callbacks/back ends.

Policy doubles implement lerax's *abstract* policy interfaces; everything the algorithms do with
them (clipping, bootstrapping, resets, buffer rows) is lerax's own code.
"""

from __future__ import annotations

from typing import Any, ClassVar

import equinox as eqx
import jax
from jax import numpy as jnp
from jax import random as jr

import numpy as np

from lerax.callback import AbstractCallback, AbstractCallbackState, AbstractCallbackStepState
from lerax.callback.logging.backend import AbstractLoggingBackend
from lerax.policy import AbstractActorCriticPolicy, AbstractPolicyState
from lerax.policy.q.base_q import AbstractQPolicy
from lerax.policy.sac.base_sac import AbstractSACPolicy
from lerax.space import AbstractSpace


class CounterState(AbstractPolicyState):
    n: jnp.ndarray  # number of actions taken since reset


def _sid(obs, obs_kind: str, nS: int, box: bool):
    if box:
        return jnp.argmax(obs[:nS]), obs[nS]
    if obs_kind == "onehot":
        return jnp.argmax(obs), jnp.asarray(0.0)
    if obs_kind == "discrete":
        return jnp.asarray(obs, dtype=int), jnp.asarray(0.0)
    if obs_kind == "dict":
        return jnp.asarray(obs["id"], dtype=int), jnp.asarray(0.0)
    return jnp.asarray(obs[0], dtype=int), jnp.asarray(0.0)


class TableACPolicy(AbstractActorCriticPolicy):
    """Actor-critic whose logits / Gaussian parameters / values are tables indexed by the state id.

    Discrete: Categorical(logits[s]) with optional mask.   Box: Normal(mu[s], exp(log_std)) per
    component (unsquashed, so samples leave the bounds).  V(obs) = vtab[s] + vacc*acc.
    Policy state: CounterState (incremented by every acting call, untouched by value()).
    """

    name: ClassVar[str] = "TableACPolicy"
    action_space: AbstractSpace
    observation_space: AbstractSpace
    logits: jnp.ndarray | None
    mu: jnp.ndarray | None
    log_std: jnp.ndarray | None
    vtab: jnp.ndarray
    vacc: jnp.ndarray
    nS: int = eqx.field(static=True)
    obs_kind: str = eqx.field(static=True)
    box: bool = eqx.field(static=True)

    def __init__(self, env, spec, *, logits=None, mu=None, log_std=None, vtab=None, vacc=0.0):
        self.action_space = env.action_space
        self.observation_space = env.observation_space
        self.nS = spec["nS"]
        self.obs_kind = spec.get("obs_kind", "onehot")
        self.box = spec.get("act_kind", "discrete") == "box"
        self.logits = None if logits is None else jnp.asarray(logits, dtype=float)
        self.mu = None if mu is None else jnp.asarray(mu, dtype=float)
        self.log_std = None if log_std is None else jnp.asarray(log_std, dtype=float)
        self.vtab = jnp.asarray(vtab, dtype=float)
        self.vacc = jnp.asarray(vacc, dtype=float)

    def reset(self, *, key):
        return CounterState(jnp.asarray(0, dtype=int))

    def _v(self, obs):
        s, acc = _sid(obs, self.obs_kind, self.nS, self.box)
        return self.vtab[s] + self.vacc * acc

    def _masked_logits(self, obs, action_mask):
        s, _ = _sid(obs, self.obs_kind, self.nS, self.box)
        lg = self.logits[s]
        if action_mask is not None:
            lg = jnp.where(action_mask, lg, -jnp.inf)
        return lg

    def _logp(self, obs, action, action_mask):
        if self.box:
            s, _ = _sid(obs, self.obs_kind, self.nS, self.box)
            lp = jax.scipy.stats.norm.logpdf(action, self.mu[s], jnp.exp(self.log_std))
            return jnp.sum(lp)
        lg = self._masked_logits(obs, action_mask)
        return jax.nn.log_softmax(lg)[jnp.asarray(action, dtype=int)]

    def _sample(self, obs, key, action_mask):
        if self.box:
            s, _ = _sid(obs, self.obs_kind, self.nS, self.box)
            mu = self.mu[s]
            return mu + jnp.exp(self.log_std) * jr.normal(key, jnp.shape(mu))
        return jr.categorical(key, self._masked_logits(obs, action_mask))

    def _mode(self, obs, action_mask):
        if self.box:
            s, _ = _sid(obs, self.obs_kind, self.nS, self.box)
            return self.mu[s]
        return jnp.argmax(self._masked_logits(obs, action_mask))

    def __call__(self, state, observation, *, key=None, action_mask=None):
        a = self._mode(observation, action_mask) if key is None else self._sample(observation, key, action_mask)
        return CounterState(state.n + 1), a

    def action_and_value(self, state, observation, *, key, action_mask=None):
        a = self._sample(observation, key, action_mask)
        return CounterState(state.n + 1), a, self._v(observation), self._logp(observation, a, action_mask)

    def evaluate_action(self, state, observation, action, *, action_mask=None):
        lp = self._logp(observation, action, action_mask)
        return CounterState(state.n + 1), self._v(observation), lp, -lp

    def value(self, state, observation):
        return state, self._v(observation)


class TableQPolicy(AbstractQPolicy):
    """Q-table policy with a counter state; __call__ is lerax's own epsilon-greedy code."""

    name: ClassVar[str] = "TableQPolicy"
    action_space: AbstractSpace
    observation_space: AbstractSpace
    epsilon: float
    q: jnp.ndarray
    w: jnp.ndarray
    nS: int = eqx.field(static=True)
    obs_kind: str = eqx.field(static=True)

    def __init__(self, env, spec, q, epsilon, w=None):
        self.action_space = env.action_space
        self.observation_space = env.observation_space
        self.nS = spec["nS"]
        self.obs_kind = spec.get("obs_kind", "onehot")
        self.q = jnp.asarray(q, dtype=float)
        # optional dependence of the Q-values on the policy state (a "recurrent" policy): Q[s] + w * n
        self.w = jnp.zeros(self.q.shape[1], dtype=float) if w is None else jnp.asarray(w, dtype=float)
        self.epsilon = float(epsilon)

    def reset(self, *, key):
        return CounterState(jnp.asarray(0, dtype=int))

    def q_values(self, state, observation):
        s, _ = _sid(observation, self.obs_kind, self.nS, False)
        return CounterState(state.n + 1), self.q[s] + self.w * state.n


class TableSACPolicy(AbstractSACPolicy):
    """Behaviour policy for Box-action MDPs: action = atab[s] (+ std * noise when keyed).
    Entries of atab may lie outside the action bounds, so the *raw choice* is known exactly."""

    name: ClassVar[str] = "TableSACPolicy"
    action_space: AbstractSpace
    observation_space: AbstractSpace
    atab: jnp.ndarray
    std: jnp.ndarray
    nS: int = eqx.field(static=True)

    def __init__(self, env, spec, atab, std=0.0):
        self.action_space = env.action_space
        self.observation_space = env.observation_space
        self.nS = spec["nS"]
        self.atab = jnp.asarray(atab, dtype=float)
        self.std = jnp.asarray(std, dtype=float)

    def reset(self, *, key):
        return CounterState(jnp.asarray(0, dtype=int))

    def __call__(self, state, observation, *, key=None, action_mask=None):
        s = jnp.argmax(observation[: self.nS])
        a = self.atab[s]
        if key is not None:
            a = a + self.std * jr.normal(key, jnp.shape(a))
        return CounterState(state.n + 1), a

    def action_distribution(self, state, observation):
        raise NotImplementedError

    def action_and_log_prob(self, state, observation, *, key):
        st, a = self(state if state is not None else CounterState(jnp.asarray(0)), observation, key=key)
        return st, a, jnp.asarray(0.0)


# ====================================================================== callbacks
class StepCount(AbstractCallbackStepState):
    n: jnp.ndarray


class Stash(AbstractCallbackState):
    n_iter: jnp.ndarray
    data: Any


class StashCallback(AbstractCallback):
    """Counts on_step calls in its (per-environment) step state and stashes selected
    ``ctx.locals`` entries of on_iteration in its iteration state.  ``ctx.locals`` is lerax's
    public extension point ("a dictionary for storing additional information"); the stash travels
    in the algorithm state that ``iteration()`` returns, so no host callbacks are involved."""

    names: tuple = eqx.field(static=True)

    def __init__(self, names=("rollout_buffer",)):
        self.names = tuple(names)

    def reset(self, ctx, *, key):
        return Stash(jnp.asarray(0, dtype=int), None)

    def step_reset(self, ctx, *, key):
        return StepCount(jnp.asarray(0, dtype=int))

    def on_step(self, ctx, *, key):
        return StepCount(ctx.state.n + 1)

    def on_iteration(self, ctx, *, key):
        data = {k: ctx.locals[k] for k in self.names if k in ctx.locals}
        data["iteration_count"] = ctx.iteration_count
        data["step_counts"] = ctx.step_state.n
        return Stash(ctx.state.n_iter + 1, data)

    def on_training_start(self, ctx, *, key):
        return ctx.state

    def on_training_end(self, ctx, *, key):
        return ctx.state

    def continue_training(self, ctx, *, key):
        return jnp.array(True)


class RecordingBackend(AbstractLoggingBackend):
    records: list = eqx.field(static=True)

    def __init__(self):
        self.records = []

    def __hash__(self):
        return id(self)

    def __eq__(self, other):
        return self is other

    def open(self, name):
        pass

    def log_hparams(self, hparams):
        self.records.append(("hparams", dict(hparams)))

    def log_scalars(self, scalars, step):
        self.records.append(("scalars", {k: float(np.asarray(v)) for k, v in scalars.items()}, int(np.asarray(step))))

    def log_video(self, tag, frames, step, fps):
        pass

    def close(self):
        pass


