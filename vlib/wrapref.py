"""Wrapper *programs* over the finite-MDP family, and their reference semantics composed in NumPy
from the wrappers' declarations.

program = list of ops, innermost first.  Ops (all JSON):
  ["identity"]
  ["time_limit", N]
  ["obs_affine", scale, shift]        TransformObservation(o -> scale*o+shift) with the matching Box
  ["obs_clip"]                        ClipObservation
  ["obs_flatten"]                     FlattenObservation
  ["obs_rescale", lo, hi]             RescaleObservation(min=lo, max=hi)   (finite obs bounds only)
  ["act_perm", perm]                  TransformAction(a -> perm[a], Discrete(nA), mask m -> m[perm])
  ["act_clip"]                        ClipAction
  ["act_rescale", lo, hi]             RescaleAction(min=lo, max=hi)
  ["rew_affine", a, b]                TransformReward(r -> a*r+b)
  ["rew_clip", lo, hi]                ClipReward(lo, hi)
"""

from __future__ import annotations

import equinox as eqx
import numpy as np
from jax import numpy as jnp

from lerax import wrapper as W
from lerax.space import Box, Discrete

from . import mdp


class Affine(eqx.Module):
    a: jnp.ndarray
    b: jnp.ndarray

    def __call__(self, x):
        return self.a * x + self.b


class Perm(eqx.Module):
    perm: jnp.ndarray

    def __call__(self, a):
        return self.perm[a]


class PermMask(eqx.Module):
    perm: jnp.ndarray

    def __call__(self, m):
        return m[self.perm]


def applicable(op: str, spec: dict, prog: list) -> bool:
    box_act = spec.get("act_kind") == "box"
    box_obs = spec.get("obs_kind", "onehot") == "onehot"
    flat = any(o[0] == "obs_flatten" for o in prog)
    unbounded_obs = box_act or flat  # acc component / flattened space is unbounded
    clipped_act = any(o[0] == "act_clip" for o in prog)
    if op in ("obs_affine", "obs_clip"):
        return box_obs
    if op == "obs_rescale":
        return box_obs and not unbounded_obs
    if op == "act_perm":
        return not box_act
    if op == "act_clip":
        return box_act
    if op == "act_rescale":
        return box_act and not clipped_act
    return True


def build(spec: dict, program: list):
    """lerax environment for (spec, program)."""
    base_spec = dict(spec, time_limit=None)
    env = mdp.TableMDP(base_spec)
    for op in program:
        k = op[0]
        if k == "identity":
            env = W.Identity(env)
        elif k == "time_limit":
            env = W.TimeLimit(env, int(op[1]))
        elif k == "obs_affine":
            a, b = float(op[1]), float(op[2])
            sp = env.observation_space
            lo, hi = a * sp.low + b, a * sp.high + b
            if a < 0:
                lo, hi = hi, lo
            env = W.TransformObservation(env, Affine(jnp.asarray(a), jnp.asarray(b)), Box(lo, hi))
        elif k == "obs_clip":
            env = W.ClipObservation(env)
        elif k == "obs_flatten":
            env = W.FlattenObservation(env)
        elif k == "obs_rescale":
            env = W.RescaleObservation(env, jnp.asarray(float(op[1])), jnp.asarray(float(op[2])))
        elif k == "act_perm":
            perm = jnp.asarray(op[1], dtype=int)
            env = W.TransformAction(env, Perm(perm), Discrete(len(op[1])), PermMask(perm))
        elif k == "act_clip":
            env = W.ClipAction(env)
        elif k == "act_rescale":
            env = W.RescaleAction(env, jnp.asarray(float(op[1])), jnp.asarray(float(op[2])))
        elif k == "rew_affine":
            env = W.TransformReward(env, Affine(jnp.asarray(float(op[1])), jnp.asarray(float(op[2]))))
        elif k == "rew_clip":
            env = W.ClipReward(env, float(op[1]), float(op[2]))
        else:
            raise ValueError(k)
    return env


def time_limit_counters(state) -> list[int]:
    """Counters of all TimeLimit layers of a (wrapped) state, outermost first."""
    out = []
    st = state
    while hasattr(st, "env_state"):
        if hasattr(st, "step_count"):
            out.append(int(st.step_count))
        st = st.env_state
    return out


def base_state(state):
    st = state
    while hasattr(st, "env_state"):
        st = st.env_state
    return st


class StackRef:
    """Reference semantics of build(spec, program), from the declarations of the wrappers."""

    def __init__(self, spec: dict, program: list):
        self.spec, self.program = spec, program
        self.base = mdp.Interp(dict(spec, time_limit=None))
        self.limits = [int(op[1]) for op in program if op[0] == "time_limit"]
        # bounds of the action space seen at each level (innermost first) for clip/rescale
        self.box = self.base.box
        if self.box:
            self.low0, self.high0 = self.base.low.copy(), self.base.high.copy()
        nS = spec["nS"]
        if self.box:
            self.obs_lo0 = np.concatenate([np.zeros(nS), [-np.inf]])
            self.obs_hi0 = np.concatenate([np.ones(nS), [np.inf]])
        elif spec.get("obs_kind", "onehot") == "onehot":
            self.obs_lo0, self.obs_hi0 = np.zeros(nS), np.ones(nS)
        else:
            self.obs_lo0 = self.obs_hi0 = None

    # ---- action: outer -> inner
    def map_action(self, a):
        """Action handed to the base environment for an outer action `a` (wrappers applied outermost first)."""
        # compute the action-space bounds below each wrapper, innermost first
        bounds = []
        if self.box:
            lo, hi = self.low0, self.high0
        for op in self.program:
            if op[0] == "act_clip":
                bounds.append((lo, hi))
                lo, hi = np.full_like(lo, -np.inf), np.full_like(hi, np.inf)
            elif op[0] == "act_rescale":
                bounds.append((lo, hi))
                lo, hi = np.full_like(lo, float(op[1])), np.full_like(hi, float(op[2]))
            else:
                bounds.append(None)
        x = a
        for op, bd in reversed(list(zip(self.program, bounds))):
            if op[0] == "act_perm":
                x = int(op[1][int(x)])
            elif op[0] == "act_clip":
                x = np.clip(np.asarray(x, np.float64), bd[0], bd[1])
            elif op[0] == "act_rescale":
                ilo, ihi = bd
                olo, ohi = float(op[1]), float(op[2])
                x = ilo + (np.asarray(x, np.float64) - olo) * (ihi - ilo) / (ohi - olo)
        return x

    def action_bounds(self):
        """(low, high) of the outermost action space (box variants)."""
        lo, hi = self.low0, self.high0
        for op in self.program:
            if op[0] == "act_clip":
                lo, hi = np.full_like(lo, -np.inf), np.full_like(hi, np.inf)
            elif op[0] == "act_rescale":
                lo, hi = np.full_like(lo, float(op[1])), np.full_like(hi, float(op[2]))
        return lo, hi

    def map_mask(self, m):
        for op in self.program:
            if op[0] == "act_perm" and m is not None:
                m = np.asarray(m)[np.asarray(op[1])]
        return m

    # ---- observation: inner -> outer (returns value and the advertised bounds)
    def map_obs(self, o):
        o = np.asarray(o, np.float64) if not isinstance(o, (dict, tuple, int)) else o
        lo, hi = self.obs_lo0, self.obs_hi0
        for op in self.program:
            k = op[0]
            if k == "obs_affine":
                a, b = float(op[1]), float(op[2])
                o = a * o + b
                lo, hi = (a * lo + b, a * hi + b) if a >= 0 else (a * hi + b, a * lo + b)
            elif k == "obs_clip":
                o = np.clip(o, lo, hi)
            elif k == "obs_flatten":
                o = flatten(o)
                lo, hi = np.full(o.shape, -np.inf), np.full(o.shape, np.inf)
            elif k == "obs_rescale":
                mn, mx = float(op[1]), float(op[2])
                o = mn + (o - lo) * (mx - mn) / (hi - lo)
                lo, hi = np.full_like(lo, mn), np.full_like(hi, mx)
        return o, lo, hi

    def map_reward(self, r):
        for op in self.program:
            if op[0] == "rew_affine":
                r = float(op[1]) * r + float(op[2])
            elif op[0] == "rew_clip":
                r = float(np.clip(r, float(op[1]), float(op[2])))
        return r

    def step(self, s, counts, a):
        """(s', counts', reward, terminal, truncated, acc') for outer action a from base state s."""
        ia = self.map_action(a)
        s2, _, r, term, inner_trunc = self.base.step(s, 0, ia)
        counts2 = [c + 1 for c in counts]
        trunc = inner_trunc or any(c >= n for c, n in zip(counts2, self.limits_outer_first()))
        acc2 = float(np.asarray(ia, np.float64).reshape(-1)[0]) if self.box else 0.0
        return s2, counts2, self.map_reward(r), term, trunc, acc2, ia

    def limits_outer_first(self):
        return list(reversed(self.limits))


class GenericRef(StackRef):
    """Reference maps (action / observation / reward / time limits) of a wrapper program over an
    arbitrary base environment with Box or Discrete action space and Box observation space."""

    def __init__(self, base_env, program):
        from lerax.space import Box

        self.program = program
        self.spec = {"obs_kind": "onehot"}
        self.limits = [int(op[1]) for op in program if op[0] == "time_limit"]
        asp, osp = base_env.action_space, base_env.observation_space
        self.box = isinstance(asp, Box)
        if self.box:
            self.low0, self.high0 = np.asarray(asp.low, np.float64), np.asarray(asp.high, np.float64)
        self.obs_lo0, self.obs_hi0 = np.asarray(osp.low, np.float64), np.asarray(osp.high, np.float64)


def build_on(env, program):
    """Wrap an arbitrary base environment with a program (same op vocabulary as build())."""
    for op in program:
        k = op[0]
        if k == "identity":
            env = W.Identity(env)
        elif k == "time_limit":
            env = W.TimeLimit(env, int(op[1]))
        elif k == "obs_affine":
            a, b = float(op[1]), float(op[2])
            sp = env.observation_space
            lo, hi = a * sp.low + b, a * sp.high + b
            if a < 0:
                lo, hi = hi, lo
            env = W.TransformObservation(env, Affine(jnp.asarray(a), jnp.asarray(b)), Box(lo, hi))
        elif k == "obs_clip":
            env = W.ClipObservation(env)
        elif k == "obs_flatten":
            env = W.FlattenObservation(env)
        elif k == "obs_rescale":
            env = W.RescaleObservation(env, jnp.asarray(float(op[1])), jnp.asarray(float(op[2])))
        elif k == "act_perm":
            perm = jnp.asarray(op[1], dtype=int)
            env = W.TransformAction(env, Perm(perm), Discrete(len(op[1])), PermMask(perm))
        elif k == "act_clip":
            env = W.ClipAction(env)
        elif k == "act_rescale":
            env = W.RescaleAction(env, jnp.asarray(float(op[1])), jnp.asarray(float(op[2])))
        elif k == "rew_affine":
            env = W.TransformReward(env, Affine(jnp.asarray(float(op[1])), jnp.asarray(float(op[2]))))
        elif k == "rew_clip":
            env = W.ClipReward(env, float(op[1]), float(op[2]))
        else:
            raise ValueError(k)
    return env


def safe_action(ref, a):
    """Box actions whose image in the base environment falls (numerically) on a bin edge are nudged:
    which side of an edge `floor((a-low)/(high-low)*nA)` lands on depends on float precision and operation
    order inside the compiled environment, which is not part of any property."""
    if not ref.box:
        return a
    nA = ref.base.nA if hasattr(ref, "base") else None
    if nA is None:
        return a
    lo, hi = float(ref.low0.reshape(-1)[0]), float(ref.high0.reshape(-1)[0])
    olo, ohi = ref.action_bounds()
    span = float(min(ohi.reshape(-1)[0], 50.0) - max(olo.reshape(-1)[0], -50.0))
    for _ in range(8):
        ia = float(np.asarray(ref.map_action(a), np.float64).reshape(-1)[0])
        f = (min(max(ia, lo), hi) - lo) / (hi - lo) * nA
        if abs(f - round(f)) > 1e-3 or ia <= lo or ia >= hi:
            return a
        a = float(np.float32(a + 0.013 * span * (1 if a < (olo.reshape(-1)[0] + ohi.reshape(-1)[0]) / 2 or not np.isfinite(ohi.reshape(-1)[0]) else -1)))
    return a


def flatten(o):
    if isinstance(o, dict):
        return np.concatenate([flatten(o[k]) for k in o])
    if isinstance(o, tuple):
        return np.concatenate([flatten(x) for x in o])
    return np.asarray(o, np.float64).reshape(-1)


# ------------------------------------------------------------------ program pool
def program_pool(spec_kind: str, rng, n: int, max_depth: int = 4):
    """Deterministic (seeded) list of wrapper programs applicable to a spec kind.
    spec_kind: 'disc' (onehot obs, discrete actions), 'box' (box actions), 'pytree' (dict obs)."""
    spec = {
        "disc": {"act_kind": "discrete", "obs_kind": "onehot"},
        "box": {"act_kind": "box", "obs_kind": "onehot"},
        "pytree": {"act_kind": "discrete", "obs_kind": "dict"},
    }[spec_kind]
    ops = ["identity", "time_limit", "obs_affine", "obs_clip", "obs_flatten", "obs_rescale", "act_perm", "act_clip", "act_rescale", "rew_affine", "rew_clip"]
    out, seen = [], set()
    tries = 0
    while len(out) < n and tries < 50 * n:
        tries += 1
        depth = int(rng.integers(1, max_depth + 1))
        prog = []
        for _ in range(depth):
            cands = [o for o in ops if applicable(o, spec, prog)]
            o = cands[int(rng.integers(0, len(cands)))]
            if o == "identity":
                prog.append(["identity"])
            elif o == "time_limit":
                prog.append(["time_limit", int(rng.integers(1, 7))])
            elif o == "obs_affine":
                prog.append(["obs_affine", float(rng.choice([2.0, -1.0, 0.5, 3.0])), float(rng.choice([0.0, 1.0, -2.0]))])
            elif o == "obs_rescale":
                lo = float(rng.choice([-1.0, 0.0, -3.0]))
                prog.append(["obs_rescale", lo, lo + float(rng.choice([1.0, 2.0, 5.0]))])
            elif o == "act_perm":
                prog.append(["act_perm", None])  # filled per spec (needs nA)
            elif o == "act_rescale":
                lo = float(rng.choice([-1.0, 0.0, -5.0]))
                prog.append(["act_rescale", lo, lo + float(rng.choice([1.0, 2.0, 10.0]))])
            elif o == "rew_affine":
                prog.append(["rew_affine", float(rng.choice([2.0, -1.0, 0.5])), float(rng.choice([0.0, 1.0, -3.0]))])
            elif o == "rew_clip":
                lo = float(rng.choice([-1.0, 0.0, -4.0]))
                prog.append(["rew_clip", lo, lo + float(rng.choice([1.0, 2.0, 6.0]))])
            else:
                prog.append([o])
        if rng.random() < 0.5 and not any(o[0] == "time_limit" for o in prog):
            prog.insert(int(rng.integers(0, len(prog) + 1)), ["time_limit", int(rng.integers(1, 6))])
        key = repr(prog)
        if key not in seen:
            seen.add(key)
            out.append(prog)
    return out


def fill_perms(program, nA, rng):
    out = []
    for op in program:
        if op[0] == "act_perm" and op[1] is None:
            out.append(["act_perm", [int(x) for x in rng.permutation(nA)]])
        else:
            out.append(list(op))
    return out


def set_state(state, s, acc, counts_outer_first):
    """Rebuild a (wrapped) state with base (s, acc) and the given TimeLimit counters."""
    counts = list(counts_outer_first)

    def rec(st):
        if hasattr(st, "env_state"):
            if hasattr(st, "step_count"):
                c = counts.pop(0)
                st = eqx.tree_at(lambda x: x.step_count, st, jnp.asarray(c, dtype=st.step_count.dtype))
            inner = rec(st.env_state)
            return eqx.tree_at(lambda x: x.env_state, st, inner)
        return mdp.MDPState(jnp.asarray(s, dtype=st.s.dtype), jnp.asarray(acc, dtype=st.acc.dtype))

    return rec(state)
