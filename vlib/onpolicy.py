"""Shared machinery for checks that look at on-policy rollouts (C03 e2e, C04, C12, C19)."""

from __future__ import annotations

import functools

import equinox as eqx
import jax
import numpy as np
from jax import numpy as jnp
from jax import random as jr

from lerax.algorithm import A2C, PPO, REINFORCE
from lerax.algorithm.on_policy import AbstractOnPolicyStepState
from lerax.callback import CallbackList
from lerax.callback.list import CallbackListStepState

from . import mdp
from .doubles import CounterState, StashCallback, TableACPolicy

ALGOS = {"PPO": PPO, "A2C": A2C, "REINFORCE": REINFORCE}


@functools.lru_cache(maxsize=None)
def algo_template(name: str, num_envs: int, num_steps: int, extra: tuple = ()):
    """One algorithm object per static configuration (the optax closures inside are compared by
    identity by filter_jit, so they must be reused for the compile cache to hit)."""
    kw = dict(extra)
    if name == "PPO":
        kw.setdefault("num_batches", 1)
        kw.setdefault("num_epochs", 1)
    return ALGOS[name](num_envs=num_envs, num_steps=num_steps, **kw)


def with_gamma(algo, gamma, lam=None):
    """The template with the discount / GAE parameter *as the algorithm's own constructor stores them* for the requested
    arguments (a throw-away instance is constructed and its two fields are transplanted as array leaves, so the compile cache
    of the template is kept while the constructor's handling of the arguments stays under test)."""
    kw = {"gamma": float(gamma)}
    if lam is not None:
        kw["gae_lambda"] = lam if isinstance(lam, int) else float(lam)  # an int (gae_lambda=1 / 0) stays an int, as a user types it
    if type(algo).__name__ == "PPO":
        kw.update(num_batches=1, num_epochs=1)
    made = type(algo)(num_envs=algo.num_envs, num_steps=algo.num_steps, **kw)
    algo = eqx.tree_at(lambda a: a.gamma, algo, jnp.asarray(made.gamma, dtype=float))
    if hasattr(algo, "gae_lambda"):
        algo = eqx.tree_at(lambda a: a.gae_lambda, algo, jnp.asarray(made.gae_lambda))  # dtype as stored (one extra compile for ints)
    return algo


@eqx.filter_jit
def collect(algo, env, policy, step_state, key):
    return algo.collect_rollout(env, policy, step_state, CallbackList([]), key)


@eqx.filter_jit
def collect_vmapped(algo, env, policy, step_states, keys):
    # the exact call on_policy.iteration makes for num_envs > 1
    return eqx.filter_vmap(algo.collect_rollout, in_axes=(None, None, eqx.if_array(0), None, 0))(
        env, policy, step_states, CallbackList([]), keys
    )


@eqx.filter_jit
def reset_algo(algo, env, policy, key, callback):
    return algo.reset(env, policy, key=key, callback=callback)


@eqx.filter_jit
def iterate(algo, state, key, callback):
    return algo.iteration(state, key=key, callback=callback)


@eqx.filter_jit
def reevaluate(policy, buffer):
    _, values, log_probs, _ = jax.vmap(policy.evaluate_action)(
        buffer.states, buffer.observations, buffer.actions, action_mask=buffer.action_masks
    )
    return values, log_probs


@eqx.filter_jit
def values_of(policy, state, observations):
    return jax.vmap(lambda o: policy.value(state, o)[1])(observations)


def step_state(spec, s, c, p, acc=0.0):
    return AbstractOnPolicyStepState(mdp.env_state(spec, s, c, acc), CounterState(jnp.asarray(p, dtype=int)), CallbackListStepState(states=[]))


def table_policy(env, spec, pol):
    return TableACPolicy(
        env,
        spec,
        logits=pol.get("logits"),
        mu=pol.get("mu"),
        log_std=pol.get("log_std"),
        vtab=pol["vtab"],
        vacc=pol.get("vacc", 0.0),
    )


def stack_obs(obs_list):
    return jax.tree.map(lambda *xs: jnp.stack([jnp.asarray(x) for x in xs]), *obs_list)


def row(tree, t):
    return jax.tree.map(lambda x: np.asarray(x)[t], tree)


def walk_rollout(ctx, spec, interp, policy, gamma, start, buf, final_state, *, prefix="C04", tags=None, check_policy_counter=True):
    """Walk a single-environment rollout buffer with the reference interpreter.

    start = (s, count, p, acc); buf = RolloutBuffer with leading axis T (numpy-able);
    final_state = carried step state after the rollout.
    Returns a dict of class flags and per-row environment rewards / episode ends.
    """
    T = int(np.asarray(buf.rewards).shape[0])
    s, c, p, acc = start
    values, log_probs = reevaluate(policy, buf)
    values, log_probs = np.asarray(values), np.asarray(log_probs)
    st_values, st_logp = np.asarray(buf.values), np.asarray(buf.log_probs)
    rewards, dones = np.asarray(buf.rewards), np.asarray(buf.dones)
    actions = np.asarray(buf.actions)
    masks = None if buf.action_masks is None else np.asarray(buf.action_masks)
    counters = np.asarray(buf.states.n) if isinstance(buf.states, CounterState) else None
    flags = dict(clip=False, trunc_only=False, term_only=False, both=False, masked=False, done=False)
    env_rewards, ends = [], []

    # successor observations for bootstrapping are evaluated in one batch afterwards
    pend = []
    for t in range(T):
        obs_t = row(buf.observations, t)
        ctx.check(interp.obs_equal(obs_t, s, acc), f"{prefix}/observation-not-of-current-state", tags=tags, t=t, expected=interp.obs(s, acc), observed=obs_t)
        a = actions[t]
        if interp.M is not None:
            ctx.check(masks is not None and np.array_equal(masks[t], interp.M[s]), f"{prefix}/recorded-mask-not-environments", tags=tags, t=t)
            ctx.check(bool(interp.M[s][int(a)]), f"{prefix}/masked-action-taken", tags=tags, t=t, s=s, a=int(a))
            if not interp.M[s].all():
                flags["masked"] = True
        else:
            ctx.check(masks is None, f"{prefix}/mask-recorded-without-environment-mask", tags=tags)
        if counters is not None and check_policy_counter:
            ctx.check(int(counters[t]) == p, f"{prefix}/stored-policy-state-not-this-rows", tags=tags, t=t, expected=p, observed=int(counters[t]))
        ctx.close(st_values[t], values[t], f"{prefix}/stored-value-not-policys", tags=tags, t=t)
        ctx.close(st_logp[t], log_probs[t], f"{prefix}/stored-logprob-not-of-stored-action", tags=tags, t=t, action=a)
        ca = interp.clip(a)
        if interp.box and not np.array_equal(ca, np.asarray(a, np.float64)):
            flags["clip"] = True
        s2, c2, r, term, trunc = interp.step(s, c, ca)
        acc2 = float(np.asarray(ca).reshape(-1)[0]) if interp.box else 0.0
        done = term or trunc
        ctx.check(bool(dones[t]) == done, f"{prefix}/done-flag", tags=tags, t=t, expected=done, observed=bool(dones[t]), term=term, trunc=trunc)
        pend.append((t, r, term, trunc, s2, acc2))
        env_rewards.append(r)
        ends.append(done)
        if term and trunc:
            flags["both"] = True
        elif term:
            flags["term_only"] = True
        elif trunc:
            flags["trunc_only"] = True
        if done:
            flags["done"] = True
            if t + 1 < T:
                ns, nacc = interp.decode_obs(row(buf.observations, t + 1))
                nc = 0
            else:
                ns, nc, nacc = mdp.read_state(spec, final_state.env_state)
            ctx.check(bool(interp.I[ns]), f"{prefix}/post-done-state-not-initial", tags=tags, t=t, state=ns)
            ctx.check(nacc == 0.0, f"{prefix}/post-done-state-not-fresh", tags=tags, t=t, acc=nacc)
            s, c, p, acc = ns, 0, 0, 0.0
        else:
            s, c, p, acc = s2, c2, p + 1, acc2
    # bootstrap terms
    succ = stack_obs([interp.obs(x[4], x[5]) for x in pend])
    if interp.spec.get("obs_kind") == "dict":
        from collections import OrderedDict

        succ = OrderedDict(succ)
    v_succ = np.asarray(values_of(policy, CounterState(jnp.asarray(0)) if counters is not None else None, succ))
    for (t, r, term, trunc, s2, acc2), vs in zip(pend, v_succ):
        boot = trunc and not term
        exp = r + (gamma * float(vs) if boot else 0.0)
        if not np.isclose(rewards[t], exp, rtol=1e-9, atol=1e-9):
            if term and trunc and np.isclose(rewards[t], r + gamma * float(vs), rtol=1e-9, atol=1e-9):
                ctx.fail(f"{prefix}/bootstrap-on-termination", tags=tags, t=t, observed=float(rewards[t]), expected=exp)
            elif np.isclose(rewards[t], r, rtol=1e-9, atol=1e-9) and boot:
                ctx.fail(f"{prefix}/no-bootstrap-on-truncation", tags=tags, t=t, observed=float(rewards[t]), expected=exp)
            else:
                ctx.fail(f"{prefix}/reward-not-of-executed-transition", tags=tags, t=t, observed=float(rewards[t]), expected=exp, env_reward=r)
    # carried state
    fs, fc, facc = mdp.read_state(spec, final_state.env_state)
    ctx.check((fs, facc) == (s, acc), f"{prefix}/carried-env-state", tags=tags, expected=[s, acc], observed=[fs, facc])
    if spec.get("time_limit") is not None:
        ctx.check(fc == c, f"{prefix}/carried-time-limit-counter", tags=tags, expected=c, observed=fc)
    if counters is not None and check_policy_counter:
        ctx.check(int(final_state.policy_state.n) == p, f"{prefix}/carried-policy-state", tags=tags, expected=p, observed=int(final_state.policy_state.n))
    return flags, env_rewards, ends, (s, c, p, acc)
