"""Finite-MDP environment family (lerax AbstractEnv subclasses driven by array tables) and a
NumPy reference interpreter of the same tables.

One compile serves every table: all tables are array leaves; only sizes/kinds are static.

spec (JSON-able dict):
  nS, nA                      sizes
  P[nS][nA] -> s'             deterministic transition table
  R[nS][nA][nS]               reward table (indexed with the successor handed to reward())
  T[nS], U[nS]                terminal / inner-truncation flags of a (successor) state
  I[nS]                       initial-state support (bool, >=1 true)
  M[nS][nA] | None            action mask (>=1 allowed per state) or None
  obs_kind                    'onehot' | 'discrete' | 'dict' | 'tuple'
  act_kind                    'discrete' | 'box'
  act_shape                   [] or [k]      (box)
  act_low, act_high           scalars or lists broadcast to act_shape (box)
  K                           list (shape act_shape) reward coefficient of the action handed to reward() (box)
  time_limit                  None | N       (wrap in lerax.wrapper.TimeLimit)

Box-action variant: the action selects bin(a0) = clip(floor((a0-low0)/(high0-low0)*nA), 0, nA-1)
where a0 is the first action component; the state remembers `acc` = a0 as handed to
transition(), and the observation is concat(onehot(s), [acc]) so that the *value the environment
was driven with* is visible in the next observation.  Reward adds sum(K * action handed to
reward()).  The environment itself never clips: clipping is the caller's job (that is the
property under test in C04/C05).
"""

from __future__ import annotations

from collections import OrderedDict
from typing import ClassVar

import equinox as eqx
import numpy as np
from jax import numpy as jnp
from jax import random as jr

from lerax.env import AbstractEnv, AbstractEnvState
from lerax.space import Box, Dict, Discrete, Tuple
from lerax.wrapper import TimeLimit


class MDPState(AbstractEnvState):
    s: jnp.ndarray
    acc: jnp.ndarray


class TableMDP(AbstractEnv):
    name: ClassVar[str] = "TableMDP"

    action_space: Box | Discrete
    observation_space: Box | Discrete | Dict | Tuple

    P: jnp.ndarray
    R: jnp.ndarray
    T: jnp.ndarray
    U: jnp.ndarray
    I: jnp.ndarray
    M: jnp.ndarray | None
    K: jnp.ndarray | None
    nS: int = eqx.field(static=True)
    nA: int = eqx.field(static=True)
    obs_kind: str = eqx.field(static=True)
    act_kind: str = eqx.field(static=True)

    def __init__(self, spec: dict):
        self.nS = int(spec["nS"])
        self.nA = int(spec["nA"])
        self.obs_kind = spec.get("obs_kind", "onehot")
        self.act_kind = spec.get("act_kind", "discrete")
        self.P = jnp.asarray(spec["P"], dtype=int)
        self.R = jnp.asarray(spec["R"], dtype=float)
        self.T = jnp.asarray(spec["T"], dtype=bool)
        self.U = jnp.asarray(spec["U"], dtype=bool)
        self.I = jnp.asarray(spec["I"], dtype=bool)
        self.M = None if spec.get("M") is None else jnp.asarray(spec["M"], dtype=bool)
        if self.act_kind == "discrete":
            self.action_space = Discrete(self.nA)
            self.K = None
        else:
            shape = tuple(spec.get("act_shape", []))
            self.action_space = Box(
                jnp.broadcast_to(jnp.asarray(spec["act_low"], dtype=float), shape),
                jnp.broadcast_to(jnp.asarray(spec["act_high"], dtype=float), shape),
            )
            self.K = jnp.broadcast_to(jnp.asarray(spec["K"], dtype=float), shape)
        onehot = Box(0.0, 1.0, shape=(self.nS,))
        if self.act_kind == "box":
            assert self.obs_kind == "onehot"
            self.observation_space = Box(
                jnp.concatenate([jnp.zeros(self.nS), jnp.array([-jnp.inf])]),
                jnp.concatenate([jnp.ones(self.nS), jnp.array([jnp.inf])]),
            )
        elif self.obs_kind == "onehot":
            self.observation_space = onehot
        elif self.obs_kind == "discrete":
            self.observation_space = Discrete(self.nS)
        elif self.obs_kind == "dict":
            self.observation_space = Dict({"id": Discrete(self.nS), "pos": onehot})
        elif self.obs_kind == "tuple":
            self.observation_space = Tuple((Discrete(self.nS), onehot))
        else:
            raise ValueError(self.obs_kind)

    # ------------------------------------------------------------------ functional API
    def initial(self, *, key):
        p = self.I.astype(float) / jnp.sum(self.I)
        s = jr.choice(key, self.nS, p=p)
        return MDPState(jnp.asarray(s, dtype=int), jnp.asarray(0.0, dtype=float))

    def action_mask(self, state, *, key):
        if self.M is None:
            return None
        return self.M[state.s]

    def _a0(self, action):
        return jnp.asarray(action, dtype=float).reshape(-1)[0]

    def _bin(self, action):
        if self.act_kind == "discrete":
            return jnp.asarray(action, dtype=int)
        low = self.action_space.low.reshape(-1)[0]
        high = self.action_space.high.reshape(-1)[0]
        a0 = self._a0(action)
        b = jnp.floor((a0 - low) / (high - low) * self.nA)
        return jnp.clip(b, 0, self.nA - 1).astype(int)

    def transition(self, state, action, *, key):
        a = self._bin(action)
        acc = self._a0(action) if self.act_kind == "box" else jnp.asarray(0.0, dtype=float)
        return MDPState(self.P[state.s, a], acc)

    def observation(self, state, *, key):
        onehot = (jnp.arange(self.nS) == state.s).astype(float)
        if self.act_kind == "box":
            return jnp.concatenate([onehot, state.acc[None]])
        if self.obs_kind == "onehot":
            return onehot
        if self.obs_kind == "discrete":
            return state.s
        if self.obs_kind == "dict":
            return OrderedDict({"id": state.s, "pos": onehot})
        return (state.s, onehot)

    def reward(self, state, action, next_state, *, key):
        r = self.R[state.s, self._bin(action), next_state.s]
        if self.act_kind == "box":
            r = r + jnp.sum(self.K * jnp.asarray(action, dtype=float))
        return r

    def terminal(self, state, *, key):
        return self.T[state.s]

    def truncate(self, state):
        return self.U[state.s]

    def state_info(self, state):
        return {"s": state.s}

    def transition_info(self, state, action, next_state):
        return {"s": state.s, "a0": self._a0(action), "s_next": next_state.s}

    def default_renderer(self):
        raise NotImplementedError

    def render(self, state, renderer):
        raise NotImplementedError


def make_env(spec: dict):
    env = TableMDP(spec)
    if spec.get("time_limit") is not None:
        env = TimeLimit(env, int(spec["time_limit"]))
    return env


def env_state(spec: dict, s: int, step_count: int = 0, acc: float = 0.0):
    """Build an environment state directly (states are plain pytrees)."""
    from lerax.wrapper.misc import TimeLimitState

    st = MDPState(jnp.asarray(s, dtype=int), jnp.asarray(acc, dtype=float))
    if spec.get("time_limit") is not None:
        st = TimeLimitState(step_count=step_count, env_state=st)
    return st


def read_state(spec: dict, st):
    """(s, step_count, acc) of a possibly time-limited state."""
    if spec.get("time_limit") is not None:
        return int(st.env_state.s), int(st.step_count), float(st.env_state.acc)
    return int(st.s), 0, float(st.acc)


# ====================================================================== reference interpreter
class Interp:
    """Pure NumPy semantics of a spec, written from the Gym/episodic contract."""

    def __init__(self, spec: dict):
        self.spec = spec
        self.nS, self.nA = spec["nS"], spec["nA"]
        self.P = np.asarray(spec["P"], int)
        self.R = np.asarray(spec["R"], np.float64)
        self.T = np.asarray(spec["T"], bool)
        self.U = np.asarray(spec["U"], bool)
        self.I = np.asarray(spec["I"], bool)
        self.M = None if spec.get("M") is None else np.asarray(spec["M"], bool)
        self.N = spec.get("time_limit")
        self.box = spec.get("act_kind", "discrete") == "box"
        if self.box:
            shape = tuple(spec.get("act_shape", []))
            self.low = np.broadcast_to(np.asarray(spec["act_low"], np.float64), shape)
            self.high = np.broadcast_to(np.asarray(spec["act_high"], np.float64), shape)
            self.K = np.broadcast_to(np.asarray(spec["K"], np.float64), shape)

    def clip(self, a):
        if not self.box:
            return a
        return np.clip(np.asarray(a, np.float64), self.low, self.high)

    def bin(self, a):
        if not self.box:
            return int(a)
        # same arithmetic, same precision as the environment (bin edges are otherwise precision dependent)
        import jax

        ft = np.float64 if jax.config.jax_enable_x64 else np.float32
        a0 = ft(np.asarray(a, np.float64).reshape(-1)[0])
        low, high = ft(self.low.reshape(-1)[0]), ft(self.high.reshape(-1)[0])
        b = np.floor((a0 - low) / (high - low) * ft(self.nA))
        return int(np.clip(b, 0, self.nA - 1))

    def step(self, s: int, count: int, a):
        """Semantics for an action *as executed*.  Returns (s', count', reward, terminal, truncated)."""
        b = self.bin(a)
        s2 = int(self.P[s, b])
        r = float(self.R[s, b, s2])
        if self.box:
            r += float(np.sum(self.K * np.asarray(a, np.float64)))
        c2 = count + 1
        term = bool(self.T[s2])
        trunc = bool(self.U[s2]) or (self.N is not None and c2 >= self.N)
        return s2, c2, r, term, trunc

    def obs(self, s: int, acc: float = 0.0):
        onehot = (np.arange(self.nS) == s).astype(np.float64)
        kind = self.spec.get("obs_kind", "onehot")
        if self.box:
            return np.concatenate([onehot, [acc]])
        if kind == "onehot":
            return onehot
        if kind == "discrete":
            return s
        if kind == "dict":
            return {"id": s, "pos": onehot}
        return (s, onehot)

    def decode_obs(self, obs):
        """(s, acc) from an observation produced by the family."""
        kind = self.spec.get("obs_kind", "onehot")
        if self.box:
            o = np.asarray(obs)
            return int(np.argmax(o[: self.nS])), float(o[self.nS])
        if kind == "onehot":
            return int(np.argmax(np.asarray(obs))), 0.0
        if kind == "discrete":
            return int(obs), 0.0
        if kind == "dict":
            return int(obs["id"]), 0.0
        return int(obs[0]), 0.0

    def obs_equal(self, obs, s: int, acc: float = 0.0) -> bool:
        kind = self.spec.get("obs_kind", "onehot")
        ref = self.obs(s, acc)
        if self.box or kind == "onehot":
            return np.array_equal(np.asarray(obs, np.float64), ref)
        if kind == "discrete":
            return int(obs) == s
        if kind == "dict":
            return int(obs["id"]) == s and np.array_equal(np.asarray(obs["pos"], np.float64), ref["pos"])
        return int(obs[0]) == s and np.array_equal(np.asarray(obs[1], np.float64), ref[1])


# ====================================================================== Hypothesis strategies
def _strategies():
    from hypothesis import strategies as st

    return st


def mdp_specs(
    nS_range=(2, 5),
    nA_range=(2, 3),
    *,
    fixed_sizes=None,
    act_kind="discrete",
    obs_kinds=("onehot",),
    act_shape=(),
    masked=None,
    time_limits=(None, 1, 2, 3, 5, 8),
    fixed_time_limit="free",
):
    """Strategy for specs.  `fixed_sizes=(nS, nA)` pins shapes so one compile serves all draws.
    time_limit presence changes the pytree *structure* (wrapper) so callers usually pin
    `fixed_time_limit` to 'none' or 'some'."""
    from hypothesis import strategies as st

    @st.composite
    def build(draw):
        if fixed_sizes is not None:
            nS, nA = fixed_sizes
        else:
            nS = draw(st.integers(*nS_range))
            nA = draw(st.integers(*nA_range))
        P = [[draw(st.integers(0, nS - 1)) for _ in range(nA)] for _ in range(nS)]
        rew = st.one_of(st.integers(-8, 8).map(float), st.floats(-10, 10, allow_nan=False).map(lambda x: round(x, 3)))
        R = [[[draw(rew) for _ in range(nS)] for _ in range(nA)] for _ in range(nS)]
        dens = draw(st.sampled_from(["none", "sparse", "dense"]))
        pT = {"none": 0.0, "sparse": 0.25, "dense": 0.6}[dens]
        densU = draw(st.sampled_from(["none", "none", "sparse", "dense"]))
        pU = {"none": 0.0, "sparse": 0.25, "dense": 0.5}[densU]
        T = [draw(st.floats(0, 1)) < pT for _ in range(nS)]
        U = [draw(st.floats(0, 1)) < pU for _ in range(nS)]
        if draw(st.integers(0, 3)) == 0 and any(T):
            # bias toward a state that is terminal AND truncated
            U[T.index(True)] = True
        imode = draw(st.sampled_from(["single", "full", "free"]))
        if imode == "single":
            k = draw(st.integers(0, nS - 1))
            I = [i == k for i in range(nS)]
        elif imode == "full":
            I = [True] * nS
        else:
            I = draw(st.lists(st.booleans(), min_size=nS, max_size=nS))
            if not any(I):
                I[draw(st.integers(0, nS - 1))] = True
        use_mask = masked if masked is not None else False
        M = None
        if use_mask:
            M = []
            for _ in range(nS):
                row = draw(st.lists(st.booleans(), min_size=nA, max_size=nA))
                if not any(row):
                    row[draw(st.integers(0, nA - 1))] = True
                M.append(row)
        if fixed_time_limit == "none":
            N = None
        elif fixed_time_limit == "some":
            N = draw(st.sampled_from([t for t in time_limits if t is not None]))
        else:
            N = draw(st.sampled_from(list(time_limits)))
        spec = {
            "nS": nS,
            "nA": nA,
            "P": P,
            "R": R,
            "T": T,
            "U": U,
            "I": I,
            "M": M,
            "obs_kind": draw(st.sampled_from(list(obs_kinds))),
            "act_kind": act_kind,
            "time_limit": N,
        }
        if act_kind == "box":
            shape = list(act_shape)
            low = draw(st.sampled_from([-1.0, -2.0, 0.0, -0.5]))
            width = draw(st.sampled_from([1.0, 2.0, 3.0, 0.5]))
            spec.update(
                act_shape=shape,
                act_low=low,
                act_high=low + width,
                K=[draw(st.sampled_from([1.0, -2.0, 0.5, 3.0])) for _ in range(int(np.prod(shape)) if shape else 1)]
                if shape
                else draw(st.sampled_from([1.0, -2.0, 0.5, 3.0])),
            )
        return spec

    return build()
