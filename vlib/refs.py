"""Float64 NumPy reference formulas, written from the property statements (not from lerax)."""

from __future__ import annotations

import numpy as np


def gae(rewards, values, dones, last_value, gamma, lam):
    """A_t = delta_t + gamma*lam*(1-done_t)*A_{t+1}; delta_t = r_t + gamma*(1-done_t)*V_{t+1} - V_t."""
    r = np.asarray(rewards, np.float64)
    v = np.asarray(values, np.float64)
    d = np.asarray(dones, bool)
    T = len(r)
    adv = np.zeros(T, np.float64)
    nxt_adv = 0.0
    for t in range(T - 1, -1, -1):
        v_next = float(last_value) if t == T - 1 else v[t + 1]
        nd = 0.0 if d[t] else 1.0
        delta = r[t] + gamma * nd * v_next - v[t]
        nxt_adv = delta + gamma * lam * nd * nxt_adv
        adv[t] = nxt_adv
    return adv, adv + v


def mc_returns(rewards, dones, last_value, gamma):
    """Discounted Monte-Carlo return with bootstrap at the end, cut at dones."""
    r = np.asarray(rewards, np.float64)
    d = np.asarray(dones, bool)
    T = len(r)
    out = np.zeros(T)
    g = float(last_value)
    for t in range(T - 1, -1, -1):
        if d[t]:
            g = 0.0
        g = r[t] + gamma * g
        out[t] = g
    return out


def softmax(x):
    x = np.asarray(x, np.float64)
    m = np.max(x[np.isfinite(x)]) if np.any(np.isfinite(x)) else 0.0
    e = np.where(np.isfinite(x), np.exp(x - m), 0.0)
    return e / e.sum()


def log_softmax(x):
    x = np.asarray(x, np.float64)
    m = np.max(x)
    return x - m - np.log(np.sum(np.exp(x - m)))


def ema(prev, value, alpha):
    return alpha * prev + (1 - alpha) * value
