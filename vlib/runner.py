"""Shared runner for the lerax property checks.

Discipline used by every check module:

* a *part* is one oracle function ``oracle(ctx, case)`` where ``case`` is a JSON-able dict that
  was produced by a Hypothesis strategy (or an exhaustive enumerator).  The oracle builds arrays
  from the dict, runs lerax, and calls ``ctx.fail(bucket, ...)`` when the property is violated.
* because the oracle is a pure function of the dict, a replay file is just the dict, and replay
  bypasses Hypothesis completely.
* Hypothesis stops at the first failure, so ``Ctx.run_given`` loops: run -> shrink -> record ->
  exclude that bucket -> run again (collect-then-shrink, at most ``MAX_BUCKETS`` root causes).
"""

from __future__ import annotations

import hashlib
import json
import math
import os
import sys
import time
import traceback
from collections import Counter
from pathlib import Path
from typing import Any, Callable

VERIF = Path(__file__).resolve().parent.parent
REPO_SRC = os.environ.get("LERAX_SRC", "/repo/src")
MAX_BUCKETS = 8


class Violation(Exception):
    def __init__(self, bucket: str, part: str, case: Any, detail: dict):
        super().__init__(f"{bucket}: {detail}")
        self.bucket = bucket
        self.part = part
        self.case = case
        self.detail = detail


class HarnessError(Exception):
    pass


def _jsonable(x):
    """Best-effort conversion of numpy / jax values to plain JSON."""
    import numpy as np

    if isinstance(x, dict):
        return {str(k): _jsonable(v) for k, v in x.items()}
    if isinstance(x, (list, tuple)):
        return [_jsonable(v) for v in x]
    if isinstance(x, (str, bool, int, type(None))):
        return x
    if isinstance(x, float):
        return x
    if isinstance(x, (np.bool_,)):
        return bool(x)
    if isinstance(x, np.integer):
        return int(x)
    if isinstance(x, np.floating):
        return float(x)
    if hasattr(x, "tolist") and hasattr(x, "shape"):
        try:
            return np.asarray(x).tolist()
        except Exception:
            return repr(x)
    return repr(x)


def case_hash(obj) -> str:
    return hashlib.sha1(
        json.dumps(_jsonable(obj), sort_keys=True, allow_nan=True).encode()
    ).hexdigest()


def _blame(exc: BaseException) -> str:
    """Who raised: 'lerax' if the innermost frame that is either lerax or harness code is lerax."""
    tb = traceback.extract_tb(exc.__traceback__)
    if type(exc).__name__ in ("EqxRuntimeError", "XlaRuntimeError", "JaxRuntimeError"):
        # run-time checks (eqx.error_if) only exist inside lerax; the harness has none
        return "lerax:runtime-check:" + str(exc).strip().splitlines()[0][:80]
    for frame in reversed(tb):
        fn = frame.filename
        if "/lerax/" in fn and "/verif/" not in fn:
            return f"lerax:{Path(fn).name}:{frame.name}"
        if str(VERIF) in fn:
            return f"harness:{Path(fn).name}:{frame.name}:{frame.lineno}"
    return "unknown"


class Ctx:
    def __init__(self, prop: str, tier: str, seed: int):
        self.prop = prop
        self.tier = tier
        self.seed = seed
        self.t0 = time.time()
        self.evaluations = 0
        self.nontrivial: set[str] = set()
        self.samples: list = []
        self.samples_per_part: Counter = Counter()
        self.classes: Counter = Counter()
        self.part_evals: Counter = Counter()
        self.part_time: dict = {}
        self.violations: list[Violation] = []
        self.known_hits: Counter = Counter()
        self.excluded: Counter = Counter()
        self.skip_buckets: set[str] = set()
        self.rule = ""
        self.assumptions: list[str] = []
        self.notes: dict = {}
        self.exhaustive = False
        self._part = "?"
        self._case = None
        self.min_fractions: list[tuple[str, str, float]] = []
        # long runs accumulate compiled executables (one per new shape); clearing JAX's caches now and then keeps
        # the JIT's code memory bounded ("LLVM ERROR: Unable to allocate section memory" in two thorough runs)
        self.clear_caches_every = 0 if tier == "quick" else 1500
        kf = VERIF / "known_findings.json"
        self.known = []
        if kf.exists():
            data = json.loads(kf.read_text())
            self.known = [
                e
                for e in data.get("findings", [])
                if e.get("property") == prop and e.get("status") == "known"
            ]

    # ---------------------------------------------------------------- bookkeeping
    @property
    def quick(self) -> bool:
        return self.tier == "quick"

    def n(self, quick: int, thorough: int) -> int:
        return quick if self.quick else thorough

    def begin(self, part: str, case):
        self._part = part
        self._case = case

    def count(self, case=None, *, nontrivial: bool, classes=(), key=None, sample=None):
        """Record one oracle execution."""
        self.evaluations += 1
        self.part_evals[self._part] += 1
        for c in classes:
            self.classes[f"{self._part}:{c}"] += 1
        if nontrivial:
            self.classes[f"{self._part}:nontrivial"] += 1
            h = case_hash(key if key is not None else (case if case is not None else self._case))
            if h not in self.nontrivial:
                self.nontrivial.add(h)
                if self.samples_per_part[self._part] < 3:
                    self.samples_per_part[self._part] += 1
                    s = sample if sample is not None else (case if case is not None else self._case)
                    self.samples.append({"part": self._part, "case": _trim(_jsonable(s))})

    def merge_counts(self, other: dict):
        """Merge counters returned by a worker process (see ``export``)."""
        self.evaluations += other["evaluations"]
        self.nontrivial |= set(other["nontrivial"])
        self.classes.update(other["classes"])
        self.part_evals.update(other["part_evals"])
        self.excluded.update(other["excluded"])
        self.known_hits.update(other["known_hits"])
        for s in other["samples"]:
            if self.samples_per_part[s["part"]] < 3:
                self.samples_per_part[s["part"]] += 1
                self.samples.append(s)
        for v in other["violations"]:
            self.violations.append(Violation(v["bucket"], v["part"], v["case"], v["detail"]))
        if other.get("harness_error"):
            raise HarnessError(other["harness_error"])

    def export(self) -> dict:
        return {
            "evaluations": self.evaluations,
            "nontrivial": sorted(self.nontrivial),
            "classes": dict(self.classes),
            "part_evals": dict(self.part_evals),
            "excluded": dict(self.excluded),
            "known_hits": dict(self.known_hits),
            "samples": self.samples,
            "violations": [
                {"bucket": v.bucket, "part": v.part, "case": _jsonable(v.case), "detail": _jsonable(v.detail)}
                for v in self.violations
            ],
        }

    # ---------------------------------------------------------------- failing
    def _known(self, bucket: str, tags: dict | None):
        for e in self.known:
            if e["bucket"] != bucket:
                continue
            m = e.get("match") or {}
            if all((tags or {}).get(k) == v for k, v in m.items()):
                return e
        return None

    def fail(self, bucket: str, *, tags: dict | None = None, **detail):
        """Report a property violation for the current case.

        ``bucket`` is a stable root-cause key.  Known findings (bucket + match tags) are counted
        and reported as KNOWN-FINDING, never raised.  Buckets already recorded in this run are
        skipped so the search continues behind them.
        """
        e = self._known(bucket, tags)
        if e is not None:
            self.known_hits[e["id"]] += 1
            self.excluded[bucket] += 1
            return
        if bucket in self.skip_buckets:
            self.excluded[bucket] += 1
            return
        detail = dict(detail)
        if tags:
            detail["tags"] = tags
        raise Violation(bucket, self._part, self._case, _jsonable(detail))

    def check(self, cond, bucket: str, *, tags: dict | None = None, **detail):
        if not bool(cond):
            self.fail(bucket, tags=tags, **detail)

    def close(self, a, b, bucket: str, *, rtol=1e-9, atol=1e-11, tags=None, **detail):
        import numpy as np

        a = np.asarray(a, dtype=np.float64)
        b = np.asarray(b, dtype=np.float64)
        ok = a.shape == b.shape and bool(
            np.all(np.isclose(a, b, rtol=rtol, atol=atol, equal_nan=True))
        )
        if not ok:
            self.fail(bucket, tags=tags, observed=a, expected=b, rtol=rtol, atol=atol, **detail)

    # ---------------------------------------------------------------- running parts
    def call(self, part: str, oracle: Callable, case):
        """Run an oracle on one case; classify exceptions."""
        self.begin(part, case)
        self._calls = getattr(self, "_calls", 0) + 1
        if getattr(self, "clear_caches_every", 0) and self._calls % self.clear_caches_every == 0:
            # checks whose cases compile ever new shapes (e.g. generated network architectures) would
            # otherwise exhaust the JIT's executable memory in long runs ("Unable to allocate section memory")
            import jax

            jax.clear_caches()
        t_start = time.time()
        try:
            try:
                oracle(self, case)
            finally:
                self.part_time[part] = self.part_time.get(part, 0.0) + time.time() - t_start
        except Violation:
            raise
        except HarnessError:
            raise
        except Exception as exc:  # noqa: BLE001
            who = _blame(exc)
            if who.startswith("lerax"):
                bucket = f"{self.prop}/{part}/exception/{type(exc).__name__}@{who}"
                if bucket in self.skip_buckets:
                    self.excluded[bucket] += 1
                    return
                e = self._known(bucket, None)
                if e is not None:
                    self.known_hits[e["id"]] += 1
                    self.excluded[bucket] += 1
                    return
                raise Violation(
                    bucket, part, case, {"exception": "".join(traceback.format_exception_only(exc))[-2000:]}
                ) from exc
            raise HarnessError(
                f"part {part}: {who}: " + "".join(traceback.format_exception(exc))[-6000:]
            ) from exc

    def run_given(self, part: str, strategy, oracle: Callable, max_examples: int, *, shrink: bool = True):
        """Hypothesis-driven part with collect-then-shrink over root-cause buckets.

        The search phase never shrinks; when it fails, the same seeded run is repeated with the
        shrink phase only if the oracle is cheap (mean < 25 ms per case) - Hypothesis' shrinker has
        a hard 5-minute cap per failure, which is too long for compile-bound oracles on a tree with a
        pervasive defect.  An unshrunk failing case is still a complete replay file."""
        import hypothesis
        from hypothesis import HealthCheck, Phase, given, settings

        def attempt(sub, phases):
            st_settings = settings(
                max_examples=max_examples,
                database=None,
                deadline=None,
                derandomize=False,
                report_multiple_bugs=False,
                phases=phases,
                suppress_health_check=list(HealthCheck),
                print_blob=False,
            )

            @hypothesis.seed(_mix(self.seed, part, sub))
            @st_settings
            @given(strategy)
            def test(case):
                self.call(part, oracle, case)

            test()

        search = [Phase.explicit, Phase.generate, Phase.target]
        found = 0
        sub = 0
        while True:
            try:
                attempt(sub, search)
                return
            except Violation as v:
                n = max(self.part_evals.get(part, 0), 1)
                cheap = self.part_time.get(part, 0.0) / n < 0.025
                if shrink and cheap:
                    try:
                        attempt(sub, search + [Phase.shrink])
                    except Violation as v2:
                        v = v2
                    except hypothesis.errors.Flaky:
                        pass
                self.violations.append(v)
                self.skip_buckets.add(v.bucket)
                found += 1
                sub += 1
                if found >= MAX_BUCKETS:
                    return
            except hypothesis.errors.Flaky as exc:  # an oracle that is not a function of its case
                raise HarnessError(f"part {part}: flaky oracle: {exc}") from exc

    def run_cases(self, part: str, cases, oracle: Callable):
        """Enumerated (non-Hypothesis) part; each bucket is recorded once, search continues."""
        for case in cases:
            try:
                self.call(part, oracle, case)
            except Violation as v:
                self.violations.append(v)
                self.skip_buckets.add(v.bucket)
                if len(self.violations) >= 4 * MAX_BUCKETS:
                    return

    def run_machine(self, part: str, machine_cls, max_examples: int, steps: int):
        """Rule-based state machine part. Machines keep ``self.ctx`` and a JSON-able ``self.trace``
        and call ``ctx.fail`` from rules/invariants; the trace is the replay."""
        import hypothesis
        from hypothesis import HealthCheck, Phase, settings
        from hypothesis.stateful import run_state_machine_as_test

        sub = 0
        found = 0
        ctx = self
        while True:
            st_settings = settings(
                max_examples=max_examples,
                stateful_step_count=steps,
                database=None,
                deadline=None,
                report_multiple_bugs=False,
                suppress_health_check=list(HealthCheck),
                print_blob=False,
                phases=[Phase.generate, Phase.shrink],
            )

            class Bound(machine_cls):  # type: ignore[misc, valid-type]
                def __init__(self):
                    self.ctx = ctx
                    self.part = part
                    super().__init__()

            Bound.__name__ = machine_cls.__name__
            Bound.__qualname__ = machine_cls.__qualname__
            try:
                run_state_machine_as_test(
                    hypothesis.seed(_mix(self.seed, part, sub))(Bound), settings=st_settings
                )
                return
            except Violation as v:
                self.violations.append(v)
                self.skip_buckets.add(v.bucket)
                found += 1
                sub += 1
                if found >= MAX_BUCKETS:
                    return
            except HarnessError:
                raise
            except hypothesis.errors.Flaky as exc:
                raise HarnessError(f"machine {part}: flaky: {exc}") from exc
            except Exception as exc:  # noqa: BLE001
                who = _blame(exc)
                if who.startswith("lerax"):
                    bucket = f"{self.prop}/{part}/exception/{type(exc).__name__}@{who}"
                    v = Violation(bucket, part, getattr(exc, "trace", None), {"exception": repr(exc)[-1500:]})
                    self.violations.append(v)
                    self.skip_buckets.add(bucket)
                    found += 1
                    sub += 1
                    if found >= MAX_BUCKETS:
                        return
                    continue
                raise HarnessError(f"machine {part}: {who}: " + "".join(traceback.format_exception(exc))[-6000:]) from exc

    def require_fraction(self, part: str, cls: str, minimum: float):
        """Generator health: the class must make up at least ``minimum`` of the part's cases."""
        self.min_fractions.append((part, cls, minimum))

    # ---------------------------------------------------------------- finishing
    def finish(self) -> int:
        wall = time.time() - self.t0
        # generator health: a class that (almost) never occurs makes the part vacuous -> harness error (exit 2);
        # a class merely below its target fraction is reported in the evidence, not turned into a failure
        degenerate, thin = [], []
        for part, cls, minimum in self.min_fractions:
            tot = self.part_evals.get(part, 0)
            got = self.classes.get(f"{part}:{cls}", 0)
            if tot and got / tot < minimum / 4:
                degenerate.append(f"{part}:{cls} {got}/{tot} < {minimum}/4")
            elif tot and got / tot < minimum:
                thin.append(f"{part}:{cls} {got}/{tot} < {minimum}")
        if thin:
            self.notes["classes_below_target_fraction"] = thin
            print("note: classes below their target fraction: " + "; ".join(thin), file=sys.stderr)
        rc = 0
        replay_dir = Path(os.environ.get("VERIF_REPLAY_DIR") or (VERIF / "replays")) / self.prop
        lines = []
        for v in self.violations:
            replay_dir.mkdir(parents=True, exist_ok=True)
            name = "".join(ch if ch.isalnum() or ch in "-_." else "_" for ch in v.bucket)[:150]
            path = replay_dir / f"{name}.json"
            path.write_text(
                json.dumps(
                    {"property": self.prop, "part": v.part, "bucket": v.bucket, "case": _jsonable(v.case), "detail": v.detail},
                    indent=1,
                    allow_nan=True,
                )
            )
            lines.append(f"VIOLATION property={self.prop} replay={path}")
            rc = 1
        for e in self.known:
            print(f"KNOWN-FINDING: property={self.prop} {e['what']} [{e['id']}; seen {self.known_hits.get(e['id'], 0)}x this run]")
        for ln in lines:
            print(ln)
        for v in self.violations:
            print(f"  bucket={v.bucket}\n  detail={json.dumps(v.detail, allow_nan=True)[:1500]}", file=sys.stderr)
        cov = {
            "evaluations": int(self.evaluations),
            "distinct_nontrivial": len(self.nontrivial),
            "rule": self.rule,
            "samples": self.samples[:24],
            "per_part_evaluations": dict(self.part_evals),
            "per_part_oracle_seconds": {k: round(v, 1) for k, v in self.part_time.items()},
            "classes": dict(sorted(self.classes.items())),
            "excluded": dict(self.excluded),
            "known_finding_hits": dict(self.known_hits),
            "exhaustive": bool(self.exhaustive),
        }
        cov.update(self.notes)
        ev = {
            "property_id": self.prop,
            "tier": self.tier,
            "seed": int(self.seed),
            "level": "exploration",
            "coverage": cov,
            "assumptions": self.assumptions,
            "wall_s": round(wall, 2),
            "violations": len(self.violations),
        }
        evdir = Path(os.environ.get("VERIF_EVIDENCE_DIR") or (VERIF / "evidence"))
        evdir.mkdir(exist_ok=True, parents=True)
        (evdir / f"{self.prop}.json").write_text(json.dumps(ev, indent=1, allow_nan=False, default=_nan_safe))
        print(
            f"[{self.prop}] tier={self.tier} seed={self.seed} evaluations={self.evaluations} "
            f"distinct_nontrivial={len(self.nontrivial)} violations={len(self.violations)} "
            f"known_hits={sum(self.known_hits.values())} wall={wall:.1f}s"
        )
        if degenerate and rc == 0:
            print("HARNESS: generator degenerate: " + "; ".join(degenerate), file=sys.stderr)
            return 2
        return rc


def _nan_safe(o):
    return repr(o)


def _trim(x, depth=0):
    """Keep samples readable: cap long lists."""
    if isinstance(x, dict):
        return {k: _trim(v, depth + 1) for k, v in list(x.items())[:40]}
    if isinstance(x, list):
        if len(x) > 24:
            return [_trim(v, depth + 1) for v in x[:24]] + [f"... ({len(x)} items)"]
        return [_trim(v, depth + 1) for v in x]
    if isinstance(x, float) and (math.isnan(x) or math.isinf(x)):
        return repr(x)
    return x


def _mix(seed: int, part: str, sub: int) -> int:
    h = hashlib.sha256(f"{seed}|{part}|{sub}".encode()).digest()
    return int.from_bytes(h[:8], "big")


def derive_seed(seed: int, *parts) -> int:
    h = hashlib.sha256(("|".join([str(seed)] + [str(p) for p in parts])).encode()).digest()
    return int.from_bytes(h[:4], "big") & 0x7FFFFFFF


# -------------------------------------------------------------------- process pool helper
def _worker(args):
    modname, fn, prop, tier, seed, payload = args
    import importlib

    os.environ.setdefault("PYTHONHASHSEED", "0")
    ctx = Ctx(prop, tier, seed)
    try:
        mod = importlib.import_module(modname)
        getattr(mod, fn)(ctx, payload)
        out = ctx.export()
    except HarnessError as exc:
        out = ctx.export()
        out["harness_error"] = str(exc)
    except Exception as exc:  # noqa: BLE001
        out = ctx.export()
        out["harness_error"] = "".join(traceback.format_exception(exc))[-6000:]
    return out


def run_pool(ctx: Ctx, modname: str, fn: str, payloads: list, procs: int = 16):
    """Run ``modname.fn(ctx_i, payload)`` in spawned processes and merge the counters."""
    import multiprocessing as mp

    if not payloads:
        return
    procs = max(1, min(procs, len(payloads)))
    mpctx = mp.get_context("spawn")
    jobs = [
        (modname, fn, ctx.prop, ctx.tier, derive_seed(ctx.seed, fn, i), p)
        for i, p in enumerate(payloads)
    ]
    with mpctx.Pool(procs, maxtasksperchild=1) as pool:
        results = pool.map(_worker, jobs, chunksize=1)
    err = None
    for r in results:
        try:
            ctx.merge_counts(r)
        except HarnessError as exc:
            err = exc
    # de-duplicate violations by bucket
    seen = set()
    uniq = []
    for v in ctx.violations:
        if v.bucket not in seen:
            seen.add(v.bucket)
            uniq.append(v)
    ctx.violations = uniq
    if err is not None:
        raise err


def main(argv=None):
    import argparse
    import importlib

    ap = argparse.ArgumentParser()
    ap.add_argument("prop")
    ap.add_argument("--tier", default=os.environ.get("VERIF_TIER", "quick"), choices=["quick", "thorough"])
    ap.add_argument("--replay", default=None)
    ap.add_argument("--seed", type=int, default=None)
    a = ap.parse_args(argv)
    seed = a.seed if a.seed is not None else int(os.environ.get("VERIF_SEED", "1") or 1)
    prop = a.prop.upper()
    mods = sorted((VERIF / "checks").glob(f"{prop.lower()}_*.py"))
    if not mods:
        print(f"no check module for {prop}", file=sys.stderr)
        return 2
    sys.path.insert(0, str(VERIF))
    try:
        mod = importlib.import_module(f"checks.{mods[0].stem}")
    except Exception:
        traceback.print_exc()
        return 2
    ctx = Ctx(prop, a.tier, seed)
    # wall-clock budget: hitting it means "inconclusive" (exit 2), never a violation.  It exists so that a
    # change which makes a compiled loop non-terminating cannot hang the check forever.
    import threading

    budget = float(os.environ.get("VERIF_BUDGET_S") or (3600 if a.tier == "quick" else 8 * 3600))

    def _expire():
        print(f"HARNESS: wall-clock budget of {budget:.0f}s exceeded in {prop} ({a.tier}); inconclusive", file=sys.stderr, flush=True)
        os._exit(2)

    watchdog = threading.Timer(budget, _expire)
    watchdog.daemon = True
    watchdog.start()
    try:
        if a.replay:
            data = json.loads(Path(a.replay).read_text())
            oracle = mod.PARTS[data["part"]]
            try:
                ctx.call(data["part"], oracle, data["case"])
                print(f"replay {a.replay}: property held")
                return 0
            except Violation as v:
                print(f"VIOLATION property={prop} replay={a.replay}")
                print(f"  bucket={v.bucket}\n  detail={json.dumps(v.detail, allow_nan=True)[:3000]}", file=sys.stderr)
                return 1
        # permanent replay tier: committed regressions first
        regdir = VERIF / "regressions" / prop
        if regdir.is_dir():
            for f in sorted(regdir.glob("*.json")):
                data = json.loads(f.read_text())
                oracle = mod.PARTS[data["part"]]
                try:
                    ctx.call("regress:" + data["part"], oracle, data["case"])
                except Violation as v:
                    v.part = data["part"]
                    if v.bucket not in ctx.skip_buckets:
                        ctx.violations.append(v)
                        ctx.skip_buckets.add(v.bucket)
        mod.run(ctx)
        return ctx.finish()
    except HarnessError as exc:
        print(f"HARNESS ERROR in {prop}: {exc}", file=sys.stderr)
        rc = 2
        if a.replay:
            return rc  # a replay never rewrites the evidence file
        try:
            if ctx.finish() == 1:
                rc = 1  # violations already established stay reported
        except Exception:
            pass
        return rc
    except Exception:
        traceback.print_exc()
        return 2
