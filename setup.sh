#!/bin/sh
# Offline setup: make sure hypothesis is importable in /venv (install from the local wheelhouse if not).
set -e
/venv/bin/python -c "import hypothesis" 2>/dev/null || \
  PIP_NO_INDEX=1 /venv/bin/pip install --no-index --find-links /opt/veriftools/wheels hypothesis
/venv/bin/python -c "import hypothesis, numpy, scipy, jax, equinox, gymnasium, mujoco; print('setup ok: hypothesis', hypothesis.__version__)"
chmod +x /verif/check 2>/dev/null || true
mkdir -p evidence replays
